import PaletteModel.Proto
import PaletteModel.Color.Transfer
import PaletteModel.Gen.Matrices

namespace Transfer
open Proto

/-- `curve <fn> <into|from> | <x> | <y>`; float type from the token prefix.  Tolerance: 8 ulps of max(|y|, 2⁻⁷·…) —
    the only cancellation is `p·1.055 − 0.055` / `α·p − (α−1)` whose operands are ≥ 0.04. -/
def handle (cfg inp outp : List String) : Verdict :=
  match cfg, inp, outp with
  | [f, dir], [i], [o] =>
    match Fn.ofString? f with
    | none => .bad "unknown curve"
    | some fn =>
      match f32? i, f32? o with
      | some x, some y =>
        let m : Float32 := if dir == "into" then intoLinear fn x else fromLinear fn x
        if closeAbs32 m y (Float32.ofScientific 5 true 2) 8 then .agree [f ++ "-" ++ dir ++ "-f32"] else .disagree s!"model={showF32 m}"
      | _, _ =>
        match f64? i, f64? o with
        | some x, some y =>
          let m : Float := if dir == "into" then intoLinear fn x else fromLinear fn x
          if closeAbs64 m y (Float.ofScientific 5 true 2) 8 then .agree [f ++ "-" ++ dir ++ "-f64"] else .disagree s!"model={showF64 m}"
        | _, _ => .bad "unparsable curve line"
  | _, _, _ => .bad "malformed curve line"

/-- the model curve behind a Rust `TransferFn` type name -/
def Fn.ofRustName? : String → Option Fn
  | "Srgb" => some .srgb | "RecOetf" => some .recOetf | "AdobeRgb" => some .adobeRgb | "P3Gamma" => some .p3Gamma
  | "ProPhotoRgb" => some .prophoto | "LinearFn" => some .linear | _ => none

/-- the transfer function that `impl RgbStandard for <std>` / `impl LumaStandard for <std>` names in the current sources -/
def transferOfStandard (kind std : String) : Option String :=
  ((if kind == "luma" then Gen.Mat.lumaStandards else Gen.Mat.rgbStandards).find? (·.1 == std)).map (·.2.2)

/-- `stdcurve <Standard> <rgb|luma> <into|from> | <x> | <y>`: `Rgb<S,T>` / `Luma<S,T>::{into,from}_linear` through the standard's
    associated `TransferFn`, looked up in the regenerated tables; then exactly as `curve` -/
def handleStd (cfg inp outp : List String) : Verdict :=
  match cfg with
  | [std, kind, dir] =>
    match (transferOfStandard kind std).bind Fn.ofRustName? with
    | none => .bad s!"no transfer function known for {kind} standard {std}"
    | some fn =>
      let f := match fn with | .srgb => "srgb" | .recOetf => "rec" | .adobeRgb => "adobe" | .p3Gamma => "p3" | .prophoto => "prophoto" | .gamma22 => "gamma22" | .linear => "linear"
      match handle [f, dir] inp outp with
      | .agree tags => .agree (tags.map fun t => kind ++ ":" ++ std ++ ":" ++ t)
      | v => v
  | _ => .bad "malformed stdcurve line"
end Transfer
