import PaletteModel.Proto
import PaletteModel.Color.Transfer

namespace Transfer
open Proto

/-- `curve <fn> <into|from> | <x> | <y>`; float type from the token prefix.  Tolerance: 8 ulps of max(|y|, 2⁻⁷·…) —
    the only cancellation is `p·1.055 − 0.055` / `α·p − (α−1)` whose operands are ≥ 0.04. -/
def handle (cfg inp outp : List String) : Verdict :=
  match cfg, inp, outp with
  | [f, dir], [i], [o] =>
    match Fn.ofString? f with
    | none => .bad "unknown curve"
    | some fn =>
      match f32? i, f32? o with
      | some x, some y =>
        let m : Float32 := if dir == "into" then intoLinear fn x else fromLinear fn x
        if closeAbs32 m y (Float32.ofScientific 5 true 2) 8 then .agree [f ++ "-" ++ dir ++ "-f32"] else .disagree s!"model={showF32 m}"
      | _, _ =>
        match f64? i, f64? o with
        | some x, some y =>
          let m : Float := if dir == "into" then intoLinear fn x else fromLinear fn x
          if closeAbs64 m y (Float.ofScientific 5 true 2) 8 then .agree [f ++ "-" ++ dir ++ "-f64"] else .disagree s!"model={showF64 m}"
        | _, _ => .bad "unparsable curve line"
  | _, _, _ => .bad "malformed curve line"
end Transfer
