/-
  Hand-written prelude of `PaletteModel/Gen/Bodies.lean` (the Rust formula bodies translated by `tools/rust2lean.py`).
  It gives a Lean reading to the few constructs of those bodies that are not themselves straight-line float code in the
  colour modules: trait methods of `num.rs` that the standard library implements for `f32`/`f64`, the macro-generated
  component-wise operators of the colour structs, and the loop combinator.  Everything here is a plain definition that
  `rfl`/`unfold` sees through, so that `Gen.Body.f = <hand model f>` is decided by definitional unfolding.

  No Mathlib import (the driver links `PaletteModel`).
-/
import PaletteModel.Color.Basic

namespace Prim
variable {α : Type} [Scalar α]

/-- `Powi::powi(self, 2)` for `f32`/`f64`: `llvm.powi` with a constant exponent, expanded to one multiplication -/
def powi2 (x : α) : α := x * x
/-- `Powi::powi(self, 3)`: two multiplications (`x*(x*x)` and `(x*x)*x` are the same float, see `Cie.cube`) -/
def powi3 (x : α) : α := x * x * x
/-- `Recip::recip` = `1 / self` -/
def recip (x : α) : α := 1.0 / x

/-! `impl_color_add! / _sub! / _mul! / _div!` (macros/arithmetics.rs): colour ∘ colour component-wise, colour ∘ scalar with the
    same scalar on every component -/
def v3Add (a b : V3 α) : V3 α := ⟨a.c0 + b.c0, a.c1 + b.c1, a.c2 + b.c2⟩
def v3Sub (a b : V3 α) : V3 α := ⟨a.c0 - b.c0, a.c1 - b.c1, a.c2 - b.c2⟩
def v3Mul (a b : V3 α) : V3 α := ⟨a.c0 * b.c0, a.c1 * b.c1, a.c2 * b.c2⟩
def v3Div (a b : V3 α) : V3 α := ⟨a.c0 / b.c0, a.c1 / b.c1, a.c2 / b.c2⟩
def v3AddS (a : V3 α) (s : α) : V3 α := ⟨a.c0 + s, a.c1 + s, a.c2 + s⟩
def v3SubS (a : V3 α) (s : α) : V3 α := ⟨a.c0 - s, a.c1 - s, a.c2 - s⟩
def v3MulS (a : V3 α) (s : α) : V3 α := ⟨a.c0 * s, a.c1 * s, a.c2 * s⟩
def v3DivS (a : V3 α) (s : α) : V3 α := ⟨a.c0 / s, a.c1 / s, a.c2 / s⟩

/-- `for _ in 0..n { x = f(x) }` -/
def iterate {β : Type} : Nat → (β → β) → β → β
  | 0, _, x => x
  | n + 1, f, x => iterate n f (f x)

end Prim
