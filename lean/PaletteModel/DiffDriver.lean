import PaletteModel.Proto
import PaletteModel.Diff
import PaletteModel.Gen.Diff

namespace Diff
open Proto

/-- what the handler needs to know about a float type: how to read it, print it and compare it -/
structure Fmt (α : Type) where
  tag : String
  parse : String → Option α
  shw : α → String
  /-- `|a − b| ≤ ulps · ulp(max(|a|, |b|, scale))` -/
  close : α → α → α → Nat → Bool
  abs : α → α
  sub : α → α → α
  le : α → α → Bool
  ofSci : Nat → Bool → Nat → α

def fmt32 : Fmt Float32 :=
  { tag := "f32", parse := f32?, shw := showF32, close := closeAbs32, abs := Float32.abs, sub := (· - ·), le := fun a b => decide (a ≤ b),
    ofSci := fun m s e => OfScientific.ofScientific m s e }
def fmt64 : Fmt Float :=
  { tag := "f64", parse := f64?, shw := showF64, close := closeAbs64, abs := Float.abs, sub := (· - ·), le := fun a b => decide (a ≤ b),
    ofSci := fun m s e => OfScientific.ofScientific m s e }

def boolTok (b : Bool) : String := if b then "1" else "0"

/-- the harness's type tags → the `type@file` keys of the extracted macro-invocation tables -/
def keyOf : String → String
  | "Lab" => "Lab@lab.rs" | "Luv" => "Luv@luv.rs" | "Oklab" => "Oklab@oklab/properties.rs" | "Jab" => "Cam16UcsJab@cam16/ucs_jab.rs"
  | "Rgb" | "LinRgb" => "Rgb@rgb/rgb.rs" | "Xyz" => "Xyz@xyz.rs" | "Luma" => "Luma@luma/luma.rs" | t => t
/-- the type the harness called `distance`/`hybrid_distance` on has an `impl_euclidean_distance!`/`impl_hyab!` invocation with `n` components
    in the sources the tables were regenerated from (cross-check of the extraction by execution) -/
def inTable (tbl : List (String × List String)) (ty : String) (n : Nat) : Bool :=
  match tbl.find? (fun e => e.1 == keyOf ty) with
  | some e => e.2.length == n
  | none => false

/-- branch tags of one CIEDE2000 evaluation: which arm of `calc_h_prime` (per colour), of `delta_h_prime` and of `h_bar_prime` was taken -/
def tagsOf {α} [Scalar α] (i : Inter α) : List String :=
  let z : α := 0.0
  let achrom := Scalar.eqv i.c1p z ∨ Scalar.eqv i.c2p z
  let hAbs := Scalar.abs (i.h2p - i.h1p)
  let dh := if achrom then "dh:zero-chroma" else if hAbs ≤ (180.0 : α) then "dh:direct" else if i.h2p ≤ i.h1p then "dh:plus360" else "dh:minus360"
  let hb := if achrom then "hbar:sum" else if hAbs ≤ (180.0 : α) then "hbar:mean" else if i.h1p + i.h2p < (360.0 : α) then "hbar:wrap-plus360" else "hbar:wrap-minus360"
  [dh, hb]

section generic
variable {α : Type} [Scalar α] (F : Fmt α)

/-- scales in which the 8-ulp budget is measured: 100 for L*/chroma-sized quantities (CIEDE2000, polar ΔE: cancellation happens at the
    magnitude of the components), the value itself for sums of non-negative terms -/
def hundred : α := F.ofSci 100 false 0
def tiny : α := F.ofSci 1 true 300

def cmp2 (m1 m2 o1 o2 scale : α) (ulps : Nat) (tags : List String) : Verdict :=
  if F.close m1 o1 scale ulps && F.close m2 o2 scale ulps then .agree tags
  else .disagree s!"model={F.shw m1} {F.shw m2}"

def handleF (op : String) (cfg : List String) (inp outp : List α) (rawOut : List String) : Verdict :=
  match op, cfg, inp, outp with
  | "de00", [form], [x1, x2, x3, y1, y2, y3], [d, imp] =>
    let (p, q) := if form == "lab" then (fromLab x1 x2 x3, fromLab y1 y2 y3) else (fromLch x1 x2 x3, fromLch y1 y2 y3)
    let i := inter (Scalar.const D2R) (Scalar.const R2D) p q
    let m := ciede2000 p q
    let tags := (tagsOf i).map (fun t => form ++ "-" ++ F.tag ++ "-" ++ t)
    -- the improved value is a function of the implementation's own `difference` (that is what the code computes it from)
    if !(F.close (improvedOfCiede d) imp (tiny F) 8) then .disagree s!"improved: model={F.shw (improvedOfCiede d)}" else
    if F.close m d (hundred F) 8 then .agree tags else
    -- The two places where the formula itself jumps.  The model's `hypot` and libm's can differ in the last bit, which moves h′ by an ulp:
    -- on the thresholds (and only there) model and implementation may then take different arms.
    let z : α := 0.0
    let chromatic := !(decide (Scalar.eqv i.c1p z) || decide (Scalar.eqv i.c2p z))
    let hAbs := Scalar.abs (i.h2p - i.h1p)
    let hSum := i.h1p + i.h2p
    let ulp360 : α := F.ofSci 360 false 0
    -- (a) |h₂′−h₁′| within 16 ulps of 180: the pairs the property excludes
    if chromatic && F.close hAbs (F.ofSci 180 false 0) ulp360 16 then .agree [form ++ "-" ++ F.tag ++ "-excluded:within-rounding-of-180-and-arms-differ"] else
    -- (b) wrap arm with h₁′+h₂′ within 16 ulps of 360: the value with the other arm of the `< 360` test must match
    let other := ciede2000OfHBar (Scalar.const D2R) i (if hSum < (360.0 : α) then (hSum - 360.0) / 2.0 else (hSum + 360.0) / 2.0)
    if chromatic && !(decide (hAbs ≤ (180.0 : α))) && F.close hSum ulp360 ulp360 16 && F.close other d (hundred F) 8
    then .agree [form ++ "-" ++ F.tag ++ "-hbar:sum-within-rounding-of-360-other-arm"] else
      -- diagnosis only: does the pre-repair mean-hue rule explain the implementation's value?
      let old := ciede2000OldWith (Scalar.const D2R) (Scalar.const R2D) p q
      let why := if F.close old d (hundred F) 8 then " (matches the pre-repair three-arm h_bar_prime)" else ""
      .disagree s!"model={F.shw m}{why}"
  | "dist", [ty], [x1, x2, x3, y1, y2, y3], [dsq, d] =>
    if !inTable Gen.Diff.euclidean ty 3 then .disagree s!"no three-component impl_euclidean_distance! invocation extracted for {ty}" else
    cmp2 F (distSq3 x1 x2 x3 y1 y2 y3) (dist3 x1 x2 x3 y1 y2 y3) dsq d (tiny F) 4 ["dist-" ++ ty ++ "-" ++ F.tag]
  | "dist1", [ty], [x, y], [dsq, d] =>
    if !inTable Gen.Diff.euclidean ty 1 then .disagree s!"no one-component impl_euclidean_distance! invocation extracted for {ty}" else
    cmp2 F (distSq1 x y) (dist1 x y) dsq d (tiny F) 4 ["dist-" ++ ty ++ "-" ++ F.tag]
  | "hyab", [ty], [x1, x2, x3, y1, y2, y3], [d] =>
    if !inTable Gen.Diff.hyab ty 3 then .disagree s!"no impl_hyab! invocation extracted for {ty}" else
    let m := hyab x1 x2 x3 y1 y2 y3
    if F.close m d (tiny F) 4 then .agree ["hyab-" ++ ty ++ "-" ++ F.tag] else .disagree s!"model={F.shw m}"
  | "deltae", [ty], [x1, x2, x3, y1, y2, y3], [de, ide] =>
    let tags := ["deltae-" ++ ty ++ "-" ++ F.tag]
    match ty with
    | "Lab" => cmp2 F (dist3 x1 x2 x3 y1 y2 y3) (improvedDeltaELab x1 x2 x3 y1 y2 y3) de ide (tiny F) 8 tags
    | "Jab" => cmp2 F (dist3 x1 x2 x3 y1 y2 y3) (improvedDeltaEJab x1 x2 x3 y1 y2 y3) de ide (tiny F) 8 tags
    | "Lch" => cmp2 F (deltaEPolarWith (Scalar.const D2R) x1 x2 x3 y1 y2 y3) (improvedDeltaELchWith (Scalar.const D2R) x1 x2 x3 y1 y2 y3) de ide (hundred F) 8 tags
    | "Jmh" => cmp2 F (deltaEPolarWith (Scalar.const D2R) x1 x2 x3 y1 y2 y3) (improvedDeltaEJmhWith (Scalar.const D2R) x1 x2 x3 y1 y2 y3) de ide (hundred F) 8 tags
    | _ => .bad s!"deltae: unknown type {ty}"
  | "polar2rect", [ty], [l, c, h], [rl, ra, rb] =>
    let m := polarToRect l c h
    let scale := F.abs c
    if F.close m.1 rl (tiny F) 0 && F.close m.2.1 ra scale 8 && F.close m.2.2 rb scale 8
    then .agree ["polar2rect-" ++ ty ++ "-" ++ F.tag ++ (if F.le (F.ofSci 0 false 0) c then "" else "-negative-chroma")]
    else .disagree s!"model={F.shw m.1} {F.shw m.2.1} {F.shw m.2.2}"
  | "wcag", [ty], [l1, l2], [r] =>
    let m := relativeContrast l1 l2
    -- the predicates are compared exactly, as functions of the implementation's own ratio (`relative_contrast(..).gt_eq(t)`)
    let preds := [decide ((4.5 : α) ≤ r), decide ((3.0 : α) ≤ r), decide ((7.0 : α) ≤ r), decide ((4.5 : α) ≤ r), decide ((3.0 : α) ≤ r)].map boolTok
    -- … and as the model computes them from the luminances
    let predsM := [hasMinContrastText l1 l2, hasMinContrastLargeText l1 l2, hasEnhancedContrastText l1 l2, hasEnhancedContrastLargeText l1 l2,
                   hasMinContrastGraphics l1 l2].map boolTok
    if !(F.close m r (tiny F) 2) then .disagree s!"model ratio={F.shw m}"
    else if preds != rawOut.drop 1 then .disagree s!"predicates of the implementation's ratio: {preds}"
    else if F.close m r (tiny F) 0 && predsM != rawOut.drop 1 then .disagree s!"model predicates: {predsM}"
    else .agree ["wcag-" ++ ty ++ "-" ++ F.tag ++ "-" ++ (if l2 < l1 then "first-lighter" else "second-lighter-or-equal")]
  | _, _, _, _ => .bad s!"malformed {op} line"

end generic

/-- `de00 lab|lch | c1 c2 | d improved`, `dist <Ty> | c1 c2 | dsq d`, `dist1 Luma | x y | dsq d`, `hyab <Ty> | c1 c2 | d`,
    `deltae Lab|Jab|Lch|Jmh | c1 c2 | de improved`, `polar2rect Lch|Jmh | l c h | l a b`, `wcag <Ty> | y1 y2 | ratio p1 … p5`.
    The float type is read off the token prefix. -/
def handle (op : String) (cfg inp outp : List String) : Verdict :=
  -- the five predicate tokens of a `wcag` line are not floats: only the first output token is
  let fl := if op == "wcag" then outp.take 1 else outp
  match inp.mapM f32?, fl.mapM f32? with
  | some i, some o => handleF fmt32 op cfg i o outp
  | _, _ =>
    match inp.mapM f64?, fl.mapM f64? with
    | some i, some o => handleF fmt64 op cfg i o outp
    | _, _ => .bad s!"{op}: unparsable floats"

end Diff
