/-
  Hand-written prelude of the family `hex` of the translator (`tools/rust2lean_hex.py` -> `Gen/BodiesHex.lean`, C12):
  the readings of the `core` / language constructs that the bodies of `rgb/hex.rs`, the `FromStr` / `LowerHex` / `UpperHex` /
  `From<u32>` impls of `rgb/rgb.rs`, `luma/luma.rs`, `alpha/alpha.rs`, `cast/packed.rs`, `rgb/channels.rs`, `luma/channels.rs`
  and `named.rs` use.  Each has one line saying what the Rust reference / std documentation says the construct does.

  Text is `Hex.Bytes` (`List UInt8`, the UTF-8 bytes of the `&str`), unsigned integers are `Nat` (as in `Hex.lean` /
  `Packed.lean`), colours are the structures of `BodyPrimGlue.lean` (`Prim.Rgb3`, `Prim.Luma1`, `Prim.AlphaOf`), tuples and
  fixed-size arrays are Lean tuples.  Everything is a plain structural definition.  No Mathlib import.
-/
import PaletteModel.Hex
import PaletteModel.BodyPrimGlue

namespace HexPrim
open Hex (Bytes IntErr)

/-! ## `Result<T, core::num::ParseIntError>` (hex.rs), with the panic outcome of `str` indexing made explicit -/

/-- `Result<T, ParseIntError>`; `panic` = the body did not return (only `&s[i..j]` can do that in these bodies) -/
inductive PRes (α : Type) where
  | ok (v : α)
  | err (e : IntErr)
  | panic
  deriving Repr

/-- `x?` inside a `fn .. -> Result<_, ParseIntError>`: `Ok(v)` continues with `v`, `Err(e)` returns `Err(From::from(e))`, and
    `From<T> for T` is the identity (reference, "The question mark operator") -/
def PRes.bind {α β : Type} (x : PRes α) (f : α → PRes β) : PRes β :=
  match x with
  | .ok v => f v
  | .err e => .err e
  | .panic => .panic

/-- `Result::map`: "Maps a `Result<T, E>` to `Result<U, E>` by applying a function to a contained `Ok` value, leaving an `Err` value untouched" -/
def PRes.map {α β : Type} (f : α → β) (x : PRes α) : PRes β :=
  match x with
  | .ok v => .ok (f v)
  | .err e => .err e
  | .panic => .panic

/-- `x?` with `x : Result<_, ParseIntError>` inside a `fn .. -> Result<_, FromHexError>`: `Err(e)` returns `Err(From::from(e))`;
    `conv` is the translated `impl From<ParseIntError> for FromHexError` -/
def tryFrom {α β : Type} (conv : IntErr → Hex.Err) (x : PRes α) (f : α → Hex.Outcome β) : Hex.Outcome β :=
  match x with
  | .ok v => f v
  | .err e => .err (conv e)
  | .panic => .panic

/-- `&s[i..j]` as an operand: evaluated before what uses it; "Panics if `begin` or `end` does not point to the starting byte offset of a
    character (as defined by `is_char_boundary`), if `begin > end`, or if `end > len`" (`Hex.slice`, where `is_char_boundary(i)` is false beyond `len`) -/
def PRes.slice {α : Type} (s : Bytes) (i j : Nat) (k : Bytes → PRes α) : PRes α :=
  match Hex.slice s i j with
  | none => .panic
  | some t => k t

/-- `uN::from_str_radix(src, 16)`: "The string is expected to be an optional `+` sign followed by only digits. Leading and trailing non-digit
    characters (including whitespace) represent an error"; no `-` for unsigned types; empty: `IntErrorKind::Empty`; a lone sign and any
    non-digit: `InvalidDigit`; a value that does not fit: `PosOverflow`.  That is `Hex.fromStrRadix16 N` (transcribed from `core::num`, replayed
    against the implementation on every run); here only re-wrapped into `PRes`. -/
def fromStrRadix16 (bits : Nat) (src : Bytes) : PRes Nat :=
  match Hex.fromStrRadix16 bits src with
  | .ok v => .ok v
  | .error k => .err k

/-- `a * b` at an unsigned integer type whose value does not overflow (`Tie_Hex.nibble_mul_fits`: every product formed in hex.rs is
    `digit * 17 ≤ 255`; on overflow Rust panics in debug builds and wraps in release builds - never reached) -/
def mulU (a b : Nat) : Nat := a * b

/-- `s.strip_prefix(c)` for an ASCII `char` pattern: "Returns a string slice with the prefix removed. If the string starts with the pattern
    `prefix`, returns the substring after the prefix, wrapped in `Some`. If the string does not start with `prefix`, returns `None`" -/
def stripPrefixChar (c : Nat) : Bytes → Option Bytes
  | [] => none
  | b :: r => if b.toNat = c then some r else none

/-- `Option::map_or(default, f)`: "Returns the provided default result (if none), or applies a function to the contained value (if any)" -/
def mapOr {α β : Type} (d : β) (f : α → β) : Option α → β
  | none => d
  | some x => f x

/-- `Option::unwrap_or(default)` -/
def unwrapOr {α : Type} (d : α) : Option α → α
  | none => d
  | some x => x

/-- `Option<&T>::copied()`: "Maps an `Option<&T>` to an `Option<T>` by copying the contents of the option" (values are not distinguished from
    references to them) -/
def copied {α : Type} (x : Option α) : Option α := x

/-- the model's view of a parsed colour: `PRes` of a component tuple into `Hex.Outcome` of a component list, a `ParseIntError` as
    `FromHexError::ParseIntError` (used only in the *statements* of `Tie_Hex.lean`) -/
def PRes.lift {α β : Type} (f : α → β) : PRes α → Hex.Outcome β
  | .ok v => .ok (f v)
  | .err e => .err (.parseInt e)
  | .panic => .panic

def t3 {τ : Type} (t : τ × τ × τ) : List τ := [t.1, t.2.1, t.2.2]
def t4 {τ : Type} (t : τ × τ × τ × τ) : List τ := [t.1, t.2.1, t.2.2.1, t.2.2.2]
def t2 {τ : Type} (t : τ × τ) : List τ := [t.1, t.2]

/-! ## `char`s of a `&str` (`check_hex_digits`) -/

/-- a `char` of a `&str` as far as these bodies look at it: the first byte of its UTF-8 encoding and the length of the encoding -/
structure Ch where
  lead : UInt8
  len : Nat
  deriving Repr

/-- length of the UTF-8 sequence a lead byte announces (`core::str::validations::utf8_char_width`): 1 below 0x80, 2 for 0xC2..0xDF,
    3 for 0xE0..0xEF, 4 for 0xF0..0xF4 (a `&str` is valid UTF-8, so no other lead byte occurs) -/
def utf8Len (b : UInt8) : Nat :=
  if b.toNat < 128 then 1 else if b.toNat < 224 then 2 else if b.toNat < 240 then 3 else 4

/-- `s.char_indices()`: "an iterator over the `char`s of a string slice, and their positions"; `i` = byte position of the next byte,
    `skip` = continuation bytes of the current `char` still to pass -/
def charIndicesFrom : Bytes → Nat → Nat → List (Nat × Ch)
  | [], _, _ => []
  | b :: r, i, 0 => (i, ⟨b, utf8Len b⟩) :: charIndicesFrom r (i + 1) (utf8Len b - 1)
  | _ :: r, i, s + 1 => charIndicesFrom r (i + 1) s

def charIndices (s : Bytes) : List (Nat × Ch) := charIndicesFrom s 0 0

/-- `Iterator::find(p)`: "Searches for an element of an iterator that satisfies a predicate ... returns the first" -/
def find {α : Type} (p : α → Bool) : List α → Option α
  | [] => none
  | x :: xs => if p x then some x else find p xs

/-- `char::is_ascii_hexdigit`: "U+0030 '0' ..= U+0039 '9', or U+0041 'A' ..= U+0046 'F', or U+0061 'a' ..= U+0066 'f'"; such a `char` is one byte -/
def Ch.isAsciiHexdigit (c : Ch) : Bool := c.len == 1 && Hex.isHexDigit c.lead

/-- `char::len_utf8`: "the number of bytes this `char` would need if encoded in UTF-8" -/
def Ch.lenUtf8 (c : Ch) : Nat := c.len

/-- the *shape* of valid UTF-8 (what every `&str` satisfies, "String slices are always valid UTF-8"): a lead byte (not `0b10xxxxxx`) is followed
    by exactly the number of continuation bytes (`0b10xxxxxx`) it announces.  `skip` = continuation bytes still owed. -/
def wfFrom : Bytes → Nat → Bool
  | [], s => s == 0
  | b :: r, 0 => (b.toNat < 128 || 192 ≤ b.toNat) && wfFrom r (utf8Len b - 1)
  | b :: r, s + 1 => (128 ≤ b.toNat && b.toNat < 192) && wfFrom r s

/-- hypothesis "`s` is the byte sequence of a `&str`" of the ties that walk `char`s -/
def Utf8 (s : Bytes) : Prop := wfFrom s 0 = true

/-! ## packed integers -/

/-- the unit structs of `rgb/channels.rs` (set checked against the source on every run), passed where Rust passes the type argument `O` -/
inductive RgbaOrder where
  | Abgr | Argb | Bgra | Rgba
  deriving DecidableEq, Repr

/-- the unit structs of `luma/channels.rs` -/
inductive LumaOrder where
  | La | Al
  deriving DecidableEq, Repr

/-- `Packed<O, P>` (cast/packed.rs) without the `PhantomData` field `channel_order` -/
structure PackedOf (π : Type) where
  color : π

/-- `u32::from_be_bytes`: "Creates a native endian integer value from its representation as a byte array in big endian" -/
def u32FromBeBytes (b : Nat × Nat × Nat × Nat) : Nat := b.1 * 2 ^ 24 + b.2.1 * 2 ^ 16 + b.2.2.1 * 2 ^ 8 + b.2.2.2
/-- `u32::to_be_bytes`: "the memory representation of this integer as a byte array in big-endian (network) byte order" -/
def u32ToBeBytes (x : Nat) : Nat × Nat × Nat × Nat := (x / 2 ^ 24 % 256, x / 2 ^ 16 % 256, x / 2 ^ 8 % 256, x % 256)
/-- `u16::from_be_bytes` -/
def u16FromBeBytes (b : Nat × Nat) : Nat := b.1 * 2 ^ 8 + b.2
/-- `u16::to_be_bytes` -/
def u16ToBeBytes (x : Nat) : Nat × Nat := (x / 2 ^ 8 % 256, x % 256)

/-- `<Rgba<S, T> as Into<[T; 4]>>::into` (`impl_array_casts!`: a cast of the `#[repr(C)]` struct, C04): the fields in declaration order
    (`Alpha { color, alpha }`, `Rgb { red, green, blue, standard: PhantomData }`; both orders re-read from the `struct`s on every run) -/
def rgbaIntoArray {τ : Type} (c : Prim.AlphaOf (Prim.Rgb3 τ) τ) : τ × τ × τ × τ := (c.color.red, c.color.green, c.color.blue, c.alpha)
/-- `<Lumaa<S, T> as Into<[T; 2]>>::into` -/
def lumaaIntoArray {τ : Type} (c : Prim.AlphaOf (Prim.Luma1 τ) τ) : τ × τ := (c.color.luma, c.alpha)
/-- `<[T; 2] as Into<Lumaa<S, T>>>::into` (the same cast, other direction) -/
def lumaaFromArray {τ : Type} (p : τ × τ) : Prim.AlphaOf (Prim.Luma1 τ) τ := ⟨⟨p.1⟩, p.2⟩

def rgbaList {τ : Type} (c : Prim.AlphaOf (Prim.Rgb3 τ) τ) : List τ := [c.color.red, c.color.green, c.color.blue, c.alpha]
def lumaaList {τ : Type} (c : Prim.AlphaOf (Prim.Luma1 τ) τ) : List τ := [c.color.luma, c.alpha]

/-! ## formatting -/

/-- `write!(f, "<pieces>", args..)` whose format string consists of `{..}` placeholders only: the output of the placeholders in order -/
def write : List Bytes → Bytes
  | [] => []
  | p :: ps => p ++ write ps

end HexPrim
