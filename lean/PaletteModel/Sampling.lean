/-
  C19 — model of palette's random sampling (`random` feature):
    macros/random.rs            impl_rand_traits_{cartesian,cylinder,hsv_cone,hsl_bicone,hwb_cone}!
    random_sampling/cone.rs     sample_hsv / invert_hsv_sample / sample_hsl / sample_bicone_height / invert_*
    hues.rs                     `Distribution<Hue> for Standard`, `impl_uniform!` (UniformRgbHue, UniformLabHue, ...)
    alpha/alpha.rs              `Distribution<Alpha<C,T>> for Standard`, `UniformAlpha`
    hsv.rs/hwb.rs/okhsv.rs/okhwb.rs  the Hsv <-> Hwb conversions the HWB sampler goes through

  The sampler is a *deterministic function of its primitive draws*.  `rand`'s primitives are parameters:
    * `rng.gen::<T>()` (Standard float)            — any value `g` with `0 ≤ g < 1`;
    * `Uniform::new(a, b).sample(rng)`             — any value `d` with `a ≤ d < b`   (requires `a < b`, else rand panics);
    * `Uniform::new_inclusive(a, b).sample(rng)`   — any value `d` with `a ≤ d ≤ b`   (requires `a ≤ b`).
  Construction (`new` / `new_inclusive`) is modelled as the list of intervals `(a, b)` handed to rand, in the order in
  which `sample` later consumes the draws; `sample` as a function of the list of draws, in the same order.

  Component order of a colour (protocol order, `Gen.Sampling.comps`): cartesian — macro order; cylinder —
  `[height, radius, hue]`; hsv_cone / hsl_bicone — `[hue, radius, height]`; hwb_cone — `[hue, whiteness, blackness]`.

  The hue sampler mirrors the code AFTER the D2 repair (`sample` returns the degree draw itself); `hueSampleOld` keeps the
  formula of the unrepaired tree (`* T::full_rotation()`) for the witness theorem.

  No Mathlib import.
-/
import PaletteModel.Scalar
import PaletteModel.Gen.Sampling

namespace Sampling
open Scalar Gen.Sampling

variable {α : Type} [Scalar α]

/-- an interval handed to `rand::distributions::Uniform::new` / `new_inclusive` -/
structure Iv (α : Type) where
  lo : α
  hi : α

/-! ### random_sampling/cone.rs -/

/-- `f32::powi(3)` / `f64::powi(3)` (`x * x * x`; LLVM expands a constant `powi` into this product) -/
def powi3 (x : α) : α := x * x * x
/-- `powi(2)` -/
def powi2 (x : α) : α := x * x

/-- `sample_hsv(r1, r2)`: `(value, saturation)` -/
def sampleHsv (r1 r2 : α) : α × α := (cbrt r1, sqrt r2)
/-- `invert_hsv_sample`: `(r1, r2)` from `(value, saturation)` -/
def invertHsv (value saturation : α) : α × α := (powi3 value, powi2 saturation)

/-- `sample_bicone_height(r1)` -/
def biconeHeight (r1 : α) : α :=
  let r1' := (if r1 ≤ 0.5 then r1 else 1.0 - r1) * 2.0
  let height := cbrt r1'
  let height := height * 0.5
  if r1 ≤ 0.5 then height else 1.0 - height

/-- `invert_bicone_height_sample(height)` -/
def invertBiconeHeight (height : α) : α :=
  if height ≤ 0.5 then powi3 height * 4.0
  else
    let x := height - 1.0
    powi3 x * 4.0 + 1.0

/-- `sample_hsl(r1, r2)`: `(saturation, lightness)` -/
def sampleHsl (r1 r2 : α) : α × α := (sqrt r2, biconeHeight r1)
/-- `invert_hsl_sample`: `(r1, r2)` from `(saturation, lightness)` -/
def invertHsl (saturation lightness : α) : α × α := (invertBiconeHeight lightness, powi2 saturation)

/-! ### hues.rs -/

/-- `UnsignedAngle::normalize_unsigned_angle` (angle.rs): `self - floor(self / 360.0) * 360.0` -/
def normalizeUnsigned (x : α) : α := x - floor (x / 360.0) * 360.0

/-- `Distribution<Hue<T>> for Standard`: `from_degrees(rng.gen() * T::full_rotation())` -/
def hueStandard (g : α) : α := g * fullRotation

/-- `impl_uniform!::new` / `new_inclusive`: the interval handed to rand (both constructors compute the same ends) -/
def hueEnds (low high : α) : Iv α :=
  let normalizedLow := normalizeUnsigned low
  let normalizedHigh := normalizeUnsigned high
  -- `normalized_low >= normalized_high && low.0 < high.0`
  let normalizedHigh := if normalizedHigh ≤ normalizedLow ∧ low < high then normalizedHigh + fullRotation else normalizedHigh
  ⟨normalizedLow, normalizedHigh⟩

/-- `impl_uniform!::sample` after the D2 repair: the draw is already in degrees -/
def hueSample (d : α) : α := d
/-- the same method on the unrepaired tree: `self.hue.sample(rng) * T::full_rotation()` -/
def hueSampleOld (d : α) : α := d * fullRotation

/-! ### Hsv <-> Hwb (hwb.rs, hsv.rs; okhwb.rs, okhsv.rs are the same expressions) -/

/-- `Hwb::from_color_unclamped(Hsv)`: `(whiteness, blackness)` from `(saturation, value)` -/
def hsvToHwb (s v : α) : α × α := ((1.0 - s) * v, 1.0 - v)
/-- `Hsv::from_color_unclamped(Hwb)`: `(saturation, value)` from `(whiteness, blackness)` -/
def hwbToHsv (w b : α) : α × α :=
  let value := 1.0 - b
  let saturation := if isValidDivisor value then 1.0 - w / value else 0.0
  (saturation, value)

/-- `MinMax::min_max` for f32/f64: `(self.min(other), self.max(other))` -/
def minMax (a b : α) : α × α := (Scalar.min a b, Scalar.max a b)

/-! ### `Standard` (a colour from `rng.gen()`): a function of the raw `[0,1)` draws, in consumption order -/

/-- `Distribution<$ty> for Standard`.  `g` are the `rng.gen::<T>()` values in the order the code draws them; the result is in
    protocol component order.  `wx wy wz` is the white point (`Xyz` scales by it). -/
def standard (ty : Ty) (wx wy wz : α) (g : List α) : List α :=
  match family ty, g with
  | .cartesian, g => g.zipIdx.map fun (x, i) => stdMap ty i wx wy wz x
  | .cylinder, [gHue, gHeight, gRadius] =>
      -- struct literal order: hue, height, radius
      [stdMap ty 0 wx wy wz gHeight, stdMap ty 1 wx wy wz (sqrt gRadius), hueStandard gHue]
  | .hsv_cone, [gHue, g1, g2] =>
      let (value, saturation) := sampleHsv g1 g2
      [hueStandard gHue, saturation, value]
  | .hsl_bicone, [gHue, g1, g2] =>
      let (saturation, lightness) := sampleHsl g1 g2
      [hueStandard gHue, biconeRadiusMap ty saturation, biconeHeightMap ty lightness]
  | .hwb_cone, [gHue, g1, g2] =>
      let (value, saturation) := sampleHsv g1 g2
      let (w, b) := hsvToHwb saturation value
      [hueStandard gHue, w, b]
  | _, _ => []

/-! ### `UniformSampler::new` / `new_inclusive`: the intervals handed to rand, in consumption order -/

/-- the HSV cone's three intervals from `[hue, saturation, value]` ends -/
def hsvEnds (hLo sLo vLo hHi sHi vHi : α) : List (Iv α) :=
  let (r1Min, r2Min) := invertHsv vLo sLo
  let (r1Max, r2Max) := invertHsv vHi sHi
  [hueEnds hLo hHi, ⟨r1Min, r1Max⟩, ⟨r2Min, r2Max⟩]

/-- `$uniform_ty::new(low, high)` (and `new_inclusive`: same ends, rand's inclusive constructor) -/
def uniformEnds (ty : Ty) (low high : List α) : List (Iv α) :=
  match family ty, low, high with
  | .cartesian, low, high => (low.zip high).map fun (l, h) => ⟨l, h⟩
  | .cylinder, [hLo, rLo, hueLo], [hHi, rHi, hueHi] =>
      -- sample order: height, radius, hue
      [⟨hLo, hHi⟩, ⟨rLo * rLo, rHi * rHi⟩, hueEnds hueLo hueHi]
  | .hsv_cone, [hueLo, sLo, vLo], [hueHi, sHi, vHi] => hsvEnds hueLo sLo vLo hueHi sHi vHi
  | .hsl_bicone, [hueLo, sLo, lLo], [hueHi, sHi, lHi] =>
      -- NB the macro applies `$radius_unmap_fn` to the height and `$height_unmap_fn` to the radius (as written in the source)
      let (r1Min, r2Min) := invertHsl (biconeHeightUnmap ty sLo) (biconeRadiusUnmap ty lLo)
      let (r1Max, r2Max) := invertHsl (biconeHeightUnmap ty sHi) (biconeRadiusUnmap ty lHi)
      [hueEnds hueLo hueHi, ⟨r1Min, r1Max⟩, ⟨r2Min, r2Max⟩]
  | .hwb_cone, [hueLo, wLo, bLo], [hueHi, wHi, bHi] =>
      let (sA, vA) := hwbToHsv wLo bLo
      let (sB, vB) := hwbToHsv wHi bHi
      let (sLo, sHi) := minMax sA sB
      let (vLo, vHi) := minMax vA vB
      hsvEnds hueLo sLo vLo hueHi sHi vHi
  | _, _, _ => []

/-! ### `UniformSampler::sample`: a function of the primitive draws (one per interval, same order) -/

def uniformSample (ty : Ty) (d : List α) : List α :=
  match family ty, d with
  | .cartesian, d => d
  | .cylinder, [dHeight, dRadius, dHue] => [dHeight, sqrt dRadius, hueSample dHue]
  | .hsv_cone, [dHue, d1, d2] =>
      let (value, saturation) := sampleHsv d1 d2
      [hueSample dHue, saturation, value]
  | .hsl_bicone, [dHue, d1, d2] =>
      let (saturation, lightness) := sampleHsl d1 d2
      [hueSample dHue, biconeRadiusMap ty saturation, biconeHeightMap ty lightness]
  | .hwb_cone, [dHue, d1, d2] =>
      let (value, saturation) := sampleHsv d1 d2
      let (w, b) := hsvToHwb saturation value
      [hueSample dHue, w, b]
  | _, _ => []

/-- the HSV colour the HWB sampler draws before converting it (what "equivalent HSV saturation and value" refers to) -/
def hwbInnerHsv (d : List α) : List α :=
  match d with
  | [dHue, d1, d2] =>
      let (value, saturation) := sampleHsv d1 d2
      [hueSample dHue, saturation, value]
  | _ => []

/-! ### Alpha<C, T>: colour draws first, then one more draw for alpha (alpha/alpha.rs) -/

def alphaStandard (ty : Ty) (wx wy wz : α) (g : List α) (gAlpha : α) : List α := standard ty wx wy wz g ++ [gAlpha]
def alphaEnds (ty : Ty) (low high : List α) (aLo aHi : α) : List (Iv α) := uniformEnds ty low high ++ [⟨aLo, aHi⟩]
def alphaSample (ty : Ty) (d : List α) (dAlpha : α) : List α := uniformSample ty d ++ [dAlpha]

end Sampling
