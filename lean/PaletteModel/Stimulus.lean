/-
  Model of `palette/src/stimulus.rs` (`IntoStimulus`), bit for bit, on Lean's own `Float32`/`Float`
  (whose `+ - * / < ≤ ofBits toBits toUIntN UIntN.toFloat` have a kernel-transparent IEEE model since
  Lean 4.33, so finite domains can be decided by kernel evaluation of the *same* definitions the
  driver executes natively).

  Conversions the core leaves opaque (`f32 as f64`, `f64 as f32`, `round`) are written out here on bit
  patterns; the correspondence check compares them with the implementation on every run.
-/

namespace Stim

def C23 : UInt32 := 0x4b000000
def C52 : UInt64 := 0x4330000000000000

/-- `f32::min` (IEEE minNum: a NaN operand loses) -/
def min32 (a b : Float32) : Float32 := if a.isNaN then b else if b.isNaN then a else if b < a then b else a
def max32 (a b : Float32) : Float32 := if a.isNaN then b else if b.isNaN then a else if a < b then b else a
def min64 (a b : Float) : Float := if a.isNaN then b else if b.isNaN then a else if b < a then b else a
def max64 (a b : Float) : Float := if a.isNaN then b else if b.isNaN then a else if a < b then b else a

def satSub32 (a b : UInt32) : UInt32 := if a < b then 0 else a - b
def satSub64 (a b : UInt64) : UInt64 := if a < b then 0 else a - b

/-- `f64::from(f32)` / `x as f64`: exact widening, on bit patterns. -/
def f32ToF64 (x : Float32) : Float :=
  let b := x.toBits
  let s : UInt64 := (b >>> 31).toUInt64 <<< 63
  let e := (b >>> 23) &&& 0xff
  let m := b &&& 0x7fffff
  if e == 0xff then
    if m == 0 then Float.ofBits (s ||| (0x7ff0000000000000 : UInt64))
    else Float.ofBits (s ||| (0x7ff8000000000000 : UInt64) ||| (m.toUInt64 <<< 29))
  else if e == 0 then
    -- subnormal or zero: m * 2^-149, exact in binary64
    let v := m.toFloat * Float.ofBits 0x36a0000000000000
    if s == 0 then v else -v
  else
    Float.ofBits (s ||| ((e.toUInt64 + 896) <<< 52) ||| (m.toUInt64 <<< 29))

/-- `x as f32` for `x : f64`: round to nearest, ties to even, on bit patterns. -/
def f64ToF32 (x : Float) : Float32 :=
  let b := x.toBits
  let s : UInt32 := (b >>> 63).toUInt32 <<< 31
  let e := (b >>> 52) &&& 0x7ff
  let m := b &&& 0xfffffffffffff
  if e == 0x7ff then
    if m == 0 then Float32.ofBits (s ||| (0x7f800000 : UInt32))
    else Float32.ofBits (s ||| (0x7fc00000 : UInt32) ||| (m >>> 29).toUInt32)
  else if e ≥ 897 then
    -- normal candidate: exponent field e-896 (≥ 1)
    if e ≥ 1151 then Float32.ofBits (s ||| (0x7f800000 : UInt32)) else
    let q := (((e - 896) <<< 23) ||| (m >>> 29)).toUInt32
    let r := m &&& 0x1fffffff
    let up := r > 0x10000000 || (r == 0x10000000 && (q &&& 1) == 1)
    Float32.ofBits (s ||| (if up then q + 1 else q))   -- carry into the exponent (and to infinity) is the right result
  else if e < 842 then Float32.ofBits s              -- below half the least subnormal (also f64 subnormals)
  else
    -- subnormal result: (2^52 + m) * 2^(e-1075), target unit 2^-149: shift right by 926 - e  (in 30 ..= 84)
    let full := m ||| 0x10000000000000
    let sh := 926 - e
    if sh ≥ 64 then Float32.ofBits s else
    let q := (full >>> sh).toUInt32
    let r := full &&& ((1 <<< sh) - 1)
    let half : UInt64 := 1 <<< (sh - 1)
    let up := r > half || (r == half && (q &&& 1) == 1)
    Float32.ofBits (s ||| (if up then q + 1 else q))

/-- `f32::round` (half away from zero) for the non-negative values the crate feeds it -/
def round32 (x : Float32) : Float32 :=
  if x.isNaN then x else
  if Float32.ofBits 0x4b000000 ≤ x then x else           -- ≥ 2^23: already an integer
  if x < Float32.ofBits 0 then x else                     -- not reached by `stimulus.rs` (unsigned sources)
  let t := x.toUInt32
  let tf := t.toFloat32
  if Float32.ofBits 0x3f000000 ≤ x - tf then (t + 1).toFloat32 else tf

def round64 (x : Float) : Float :=
  if x.isNaN then x else
  if Float.ofBits 0x4330000000000000 ≤ x then x else      -- ≥ 2^52
  if x < Float.ofBits 0 then x else
  let t := x.toUInt64
  let tf := t.toFloat
  if Float.ofBits 0x3fe0000000000000 ≤ x - tf then (t + 1).toFloat else tf

/-- `f32::clamp(x, 0.0, max)`; NaN stays NaN -/
def clamp32 (x lo hi : Float32) : Float32 := if x < lo then lo else if hi < x then hi else x
def clamp64 (x lo hi : Float) : Float := if x < lo then lo else if hi < x then hi else x

/-! ### float → uint -/

/-- `convert_float_to_uint!` direct arm (`f32 → u8, u16`): returns the `u32` before the final `as` truncation -/
def f32Direct (max : Float32) (x : Float32) : UInt32 :=
  let scaled := max32 (min32 (x * max) max) (Float32.ofBits 0)
  let f := scaled + Float32.ofBits C23
  satSub32 f.toBits C23

/-- `convert_float_to_uint!` via-f64 arm and `convert_double_to_uint!`: `none` means "cast `scaled` directly" -/
def f64Magic (max : Float) (x : Float) : UInt64 ⊕ Float :=
  let scaled := max64 (min64 (x * max) max) (Float.ofBits 0)
  if scaled < Float.ofBits C52 then
    let f := scaled + Float.ofBits C52
    .inl (satSub64 f.toBits C52)
  else .inr scaled

def maxF64 : Nat → Float
  | 8 => Float.ofBits 0x406fe00000000000      -- 255
  | 16 => Float.ofBits 0x40efffe000000000     -- 65535
  | 32 => Float.ofBits 0x41efffffffe00000     -- 4294967295
  | 64 => Float.ofBits 0x43f0000000000000     -- u64::MAX as f64 = 2^64
  | _ => Float.ofBits 0x47f0000000000000      -- u128::MAX as f64 = 2^128

/-- exact value of a non-negative finite binary64 that is an integer ≥ 2^52, as a `Nat` -/
def f64BigToNat (x : Float) : Nat :=
  let b := x.toBits
  let e := ((b >>> 52) &&& 0x7ff).toNat
  let m := (b &&& 0xfffffffffffff).toNat + 2^52
  if e ≥ 1075 then m * 2^(e - 1075) else m / 2^(1075 - e)

/-- `scaled as uN` for `scaled ≥ 2^52` (saturating) -/
def bigCast (w : Nat) (x : Float) : Nat :=
  if x.isNaN then 0 else
  let n := f64BigToNat x
  if ((x.toBits >>> 52) &&& 0x7ff) == 0x7ff then 2^w - 1 else if n ≥ 2^w then 2^w - 1 else n

/-- float (as f64 after widening where the code widens) → unsigned of width `w`, result as `Nat` -/
def f64ToUint (w : Nat) (x : Float) : Nat :=
  match f64Magic (maxF64 w) x with
  | .inl u => u.toNat % 2^w          -- `as uN` truncates; `as u128` zero-extends
  | .inr s => bigCast w s

def f32ToUint (w : Nat) (x : Float32) : Nat :=
  if w == 8 then (f32Direct (Float32.ofBits 0x437f0000) x).toNat % 256
  else if w == 16 then (f32Direct (Float32.ofBits 0x477fff00) x).toNat % 65536
  else f64ToUint w (f32ToF64 x)

/-! ### uint → float -/

def u8ToF32 (n : UInt8) : Float32 :=
  let compF := Float32.ofBits (n.toUInt32 + C23) - Float32.ofBits C23
  let maxF := Float32.ofBits 0x3f800000 / (Float32.ofBits (255 + C23) - Float32.ofBits C23)   -- `.recip()`
  compF * maxF

def u8ToF64 (n : UInt8) : Float :=
  let compF := Float.ofBits (n.toUInt64 + C52) - Float.ofBits C52
  let maxF := Float.ofBits 0x3ff0000000000000 / (Float.ofBits (255 + C52) - Float.ofBits C52)
  compF * maxF

/-- `n as f64` for any `n < 2^128`: round to nearest even -/
def natToF64 (n : Nat) : Float :=
  if n < 2^64 then (UInt64.ofNat n).toFloat else
  -- split: hi * 2^64 + lo; `as f64` rounds once, so do it on the integer: keep 53 bits
  let len := n.log2 + 1
  let sh := len - 53
  let q := n / 2^sh
  let r := n % 2^sh
  let half := 2^(sh - 1)
  let q' := if r > half || (r == half && q % 2 == 1) then q + 1 else q
  -- q' ≤ 2^53, exact as f64; scale by 2^sh (exact)
  (UInt64.ofNat q').toFloat * Float.ofBits (UInt64.ofNat ((1023 + sh) * 2^52))

def uintToF32 (w : Nat) (n : Nat) : Float32 :=
  if w == 8 then u8ToF32 (UInt8.ofNat n)
  else if w == 16 then (UInt16.ofNat n).toFloat32 / Float32.ofBits 0x477fff00
  else f64ToF32 (natToF64 n / maxF64 w)

def uintToF64 (w : Nat) (n : Nat) : Float :=
  if w == 8 then u8ToF64 (UInt8.ofNat n)
  else if w == 16 then (UInt16.ofNat n).toFloat / maxF64 16
  else natToF64 n / maxF64 w

/-! ### uint → uint -/

/-- `convert_uint_to_larger_uint!`: `(x << BITS) | x`, chained through the next width -/
def widenStep (w : Nat) (n : Nat) : Nat := n * 2^w + n
def widen : (w w' : Nat) → Nat → Nat
  | 8, 16, n => widenStep 8 n
  | 8, 32, n => widenStep 16 (widenStep 8 n)
  | 8, 64, n => widenStep 32 (widenStep 16 (widenStep 8 n))
  | 8, 128, n => widenStep 64 (widenStep 32 (widenStep 16 (widenStep 8 n)))
  | 16, 32, n => widenStep 16 n
  | 16, 64, n => widenStep 32 (widenStep 16 n)
  | 16, 128, n => widenStep 64 (widenStep 32 (widenStep 16 n))
  | 32, 64, n => widenStep 32 n
  | 32, 128, n => widenStep 64 (widenStep 32 n)
  | 64, 128, n => widenStep 64 n
  | _, _, n => n

/-- saturating `f64 as uN` for a non-negative finite or infinite value -/
def f64CastNat (w : Nat) (x : Float) : Nat :=
  if x.isNaN then 0 else
  if x < Float.ofBits 0x4330000000000000 then x.toUInt64.toNat % 2^64 |> fun n => if n ≥ 2^w then 2^w - 1 else n
  else bigCast w x

/-- `convert_uint_to_uint!` narrowing, `u16 → u8` goes through `f32`, everything else through `f64` -/
def narrow (w w' : Nat) (n : Nat) : Nat :=
  if w == 16 then
    let tmax := Float32.ofBits 0x437f0000
    let scaled := ((UInt16.ofNat n).toFloat32 / Float32.ofBits 0x477fff00) * tmax
    (clamp32 (round32 scaled) (Float32.ofBits 0) tmax).toUInt8.toNat
  else
    let tmax := maxF64 w'
    let scaled := (natToF64 n / maxF64 w) * tmax
    f64CastNat w' (clamp64 (round64 scaled) (Float.ofBits 0) tmax)

def uintToUint (w w' : Nat) (n : Nat) : Nat :=
  if w == w' then n else if w < w' then widen w w' n else narrow w w' n

end Stim
