/-
  Explicit model functions for forms of the lookup-table code that `PaletteModel/Lut.lean` left implicit in theorem statements
  (added for the source-text tie `PaletteProofs/Tie_Lut.lean`; the existing functions of Lut.lean are unchanged).
-/
import PaletteModel.Lut

namespace Lut

/-- `FromLinear<f64, u16> for ProPhotoRgb` = the f32 path after `linear as f32`
    (the expression the theorems `C05E16.fromLinearU16_f64_*` / `C05F16.*` are about: `Tie.prophotoFromLinearU16_f64_eq`) -/
def prophotoFromLinearU16_f64 (bits64 : Nat) : Nat :=
  prophotoFromLinearU16 (Stim.f64ToF32 (Float.ofBits (UInt64.ofNat bits64))).toBits.toNat

/-- `IntoLinear<f64, u16> for ProPhotoRgb` (and, followed by `as f32`, `IntoLinear<f32, u16>`): the read of a decode table given as f64 bit patterns -/
def tableRead64 (table : List Nat) (code : Nat) : Nat := table.getD code 0

end Lut
