/-
  Explicit model functions for what the matrix code of palette does *around* `M3.mul` / `M3.mulVec` / `Adapt.*` / `RgbFam.*`:
  `matrix_map`, `mat3_from_primaries`, `rgb_to_xyz_matrix` **with its panic** (`Option`), the `Matrix3` wrapper
  (`convert_once`, `then`, `invert`, `identity`, `scale`), the choice "hard-coded table, else derived matrix" of
  `Xyz::matrix_from_rgb` / `Rgb::matrix_from_xyz`, the cone matrices by `Method`, the deprecated `AdaptFrom` glue, the
  same-white-point shortcut of `AdaptFromUnclamped for Xyz`, `Yxy::default`.

  These had been implicit in the existing model (`RgbFam.rgbToXyz` takes the hard-coded table, `MatArith.rgbToXyzMatrix` has no
  panic, `Adapt.adaptationMatrix` takes the cone matrices as arguments).  `PaletteProofs/Tie_Matrix.lean` proves the translated
  Rust bodies (`Gen.BodyMatrix.*`) equal to these functions, and these functions equal to what the existing theorems use
  (`matrixFromRgb_hard`, `rgbToXyzMatrix_eq_matArith`, ..).  No existing model function is changed.

  No Mathlib import (the driver links `PaletteModel`).
-/
import PaletteModel.Adapt
import PaletteModel.Color.RgbFamily
import PaletteModel.BodyPrimMatrix

namespace MatrixForms
open Scalar

/-- `matrix::matrix_map(m, f)` -/
def m3Map {σ τ : Type} (m : M3 σ) (f : σ → τ) : M3 τ :=
  ⟨f m.m0, f m.m1, f m.m2, f m.m3, f m.m4, f m.m5, f m.m6, f m.m7, f m.m8⟩

/-- a nine-element table as an array (`Option<Mat3<f64>>` of `RgbSpace::rgb_to_xyz_matrix`) -/
def m3K? : List K → Option (M3 K)
  | [a, b, c, d, e, f, g, h, i] => some ⟨a, b, c, d, e, f, g, h, i⟩
  | _ => none

variable {α : Type} [Scalar α]

/-- `matrix::mat3_from_primaries(r, g, b)`: the primaries as *columns* -/
def mat3FromPrimaries (r g b : V3 α) : M3 α :=
  ⟨r.c0, g.c0, b.c0, r.c1, g.c1, b.c1, r.c2, g.c2, b.c2⟩

/-- the scaling step of `rgb_to_xyz_matrix`: column `j` of `m` times `s_j` -/
def scaleColumns (m : M3 α) (s : V3 α) : M3 α :=
  ⟨m.m0 * s.c0, m.m1 * s.c1, m.m2 * s.c2, m.m3 * s.c0, m.m4 * s.c1, m.m5 * s.c2, m.m6 * s.c0, m.m7 * s.c1, m.m8 * s.c2⟩

/-- `matrix::rgb_to_xyz_matrix::<S, T>()`: primaries (as `Yxy`) through `Yxy → Xyz`, as columns; `none` when `matrix_inverse` panics -/
def rgbToXyzMatrix (red green blue : V3 α) (yxyToXyz : V3 α → V3 α) (wp : V3 α) : Option (M3 α) :=
  let m := mat3FromPrimaries (yxyToXyz red) (yxyToXyz green) (yxyToXyz blue)
  match Adapt.matrixInverse m with
  | none => none
  | some inv => some (scaleColumns m (inv.mulVec wp))

/-! ### `convert::Matrix3` -/

def convertOnce (m : Prim.Matrix3 α) (v : V3 α) : V3 α := m.matrix.mulVec v
def identity : Prim.Matrix3 α := ⟨⟨1.0, 0.0, 0.0, 0.0, 1.0, 0.0, 0.0, 0.0, 1.0⟩⟩
def scale (s1 s2 s3 : α) : Prim.Matrix3 α := ⟨⟨s1, 0.0, 0.0, 0.0, s2, 0.0, 0.0, 0.0, s3⟩⟩
/-- `a.then(next)`: first `a`, then `next`, i.e. `multiply_3x3(next, a)` -/
def andThen (a next : Prim.Matrix3 α) : Prim.Matrix3 α := ⟨M3.mul next.matrix a.matrix⟩
def invert (a : Prim.Matrix3 α) : Option (Prim.Matrix3 α) :=
  match Adapt.matrixInverse a.matrix with
  | none => none
  | some m => some ⟨m⟩
def ofMatrix (m : M3 α) : Prim.Matrix3 α := ⟨m⟩

/-! ### helpers of the colour structs -/

/-- `with_white_point` / `with_meta` / `reinterpret_as`: the same components under another type-level tag -/
def reinterpret (c : V3 α) : V3 α := c
def reinterpretLuma (l : Prim.Luma1 α) : Prim.Luma1 α := l
/-- `Rgb::into_linear` / `from_linear`: the transfer function on each component -/
def mapRgb (f : α → α) (c : V3 α) : V3 α := c.map f
def mapLuma (f : α → α) (l : Prim.Luma1 α) : Prim.Luma1 α := ⟨f l.luma⟩
def apply {σ τ : Type} (f : σ → τ) (x : σ) : τ := f x
def apply2 {σ τ μ : Type} (f : σ → μ → τ) (x : σ) (m : μ) : τ := f x m
/-- `adapt_from` / `adapt_into`: the default method is Bradford -/
def withMethod {σ τ : Type} (f : σ → Prim.Method → τ) (x : σ) : τ := f x .bradford

/-! ### cone matrices (lms/matrix.rs) by name, from the extracted table -/

def coneToLms (name : String) : M3 α :=
  match Adapt.coneMatrices? name with | some (a, _) => M3.ofK a | none => M3.ofK []
def coneToXyz (name : String) : M3 α :=
  match Adapt.coneMatrices? name with | some (_, b) => M3.ofK b | none => M3.ofK []

def methodName : Prim.Method → String
  | .bradford => "Bradford" | .vonKries => "VonKries" | .xyzScaling => "UnitMatrix"

/-- `impl TransformMatrix<T> for Method`: `get_cone_response` -/
def coneResponse (m : Prim.Method) : Prim.ConeResponse α := ⟨coneToLms (methodName m), coneToXyz (methodName m)⟩

/-! ### hard-coded table, else derived matrix -/

/-- the `RgbSpace` default of `rgb_to_xyz_matrix()` / `xyz_to_rgb_matrix()` (what the tuple space `(P, W)` has): no table -/
def noHardMatrix : Option (M3 K) := none

/-- `Xyz::matrix_from_rgb`: the table through `from_f64` when the space has one, else `derived` (= `rgb_to_xyz_matrix`, possibly panicking) -/
def matrixFromRgb (hard : Option (M3 K)) (derived : Option (M3 α)) : Option (Prim.Matrix3 α) :=
  match hard with
  | some m => some ⟨m3Map m Scalar.const⟩
  | none => match derived with | none => none | some d => some ⟨d⟩

/-- `Rgb::matrix_from_xyz`: the table, else the inverse of the derived matrix -/
def matrixFromXyz (hard : Option (M3 K)) (derived : Option (M3 α)) : Option (Prim.Matrix3 α) :=
  match hard with
  | some m => some ⟨m3Map m Scalar.const⟩
  | none => match derived with
    | none => none
    | some d => match Adapt.matrixInverse d with | none => none | some i => some ⟨i⟩

/-! ### adaptation glue -/

/-- the blanket `impl AdaptFrom<S, Swp, Dwp, T> for D`: into `Xyz<Swp>`, the transform matrix of the two white points, out of `Xyz<Dwp>` -/
def adaptFromUsing {σ τ μ : Type} (intoXyz : σ → V3 α) (generate : μ → V3 α → V3 α → M3 α) (ws wd : V3 α) (fromXyz : V3 α → τ) (c : σ) (m : μ) : τ :=
  fromXyz ((generate m ws wd).mulVec (intoXyz c))

/-- `impl AdaptFromUnclamped<Xyz<Wp1, T>> for Xyz<Wp2, T>`: equal white points → the input unchanged (the matrix is not computed), else
    `adaptation_matrix(None, None)` applied -/
def adaptXyz (same : Bool) (x2l l2x : M3 α) (wi wo : V3 α) (x : V3 α) : V3 α :=
  if same then x else (Adapt.adaptationMatrix x2l l2x wi wo).mulVec x

/-- `impl Default for Yxy<Wp, T>`: chromaticity of the white point, luma 0 -/
def yxyDefault (wp : V3 α) : V3 α :=
  let d := Cie.xyzToYxy wp
  ⟨d.c0, d.c1, 0.0⟩

end MatrixForms
