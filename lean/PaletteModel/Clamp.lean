/-
  Model of `macros/clamp.rs` (`impl_clamp!`, `impl_is_within_bounds!`, the HWB variants), of
  `convert/from_into_color.rs` (`FromColor = clamp ∘ from_color_unclamped`) and of
  `convert/try_from_into_color.rs` (`TryFromColor`).  Order-only: generic over `<`/`≤`.
-/
namespace Clamp

section order
variable {α : Type} [LT α] [LE α] [DecidableRel (α := α) (· < ·)] [DecidableRel (α := α) (· ≤ ·)]

/-- `crate::clamp(v, lo, hi)` = `f32::clamp` / `Ord::clamp` -/
def clampV (v lo hi : α) : α := if v < lo then lo else if hi < v then hi else v
/-- `crate::clamp_min(v, lo)` = `f32::max(v, lo)` / `Ord::max` (non-NaN) -/
def clampMinV (v lo : α) : α := if v < lo then lo else v

/-- a component's bounds as the macros receive them: `[min, max]`, `[min]` (no upper bound), or not listed at all (`other {..}`) -/
inductive Bound (α : Type) | both (lo hi : α) | minOnly (lo : α) | untouched

def clampC (v : α) : Bound α → α
  | .both lo hi => clampV v lo hi
  | .minOnly lo => clampMinV v lo
  | .untouched => v

/-- `self.c.gt_eq(&min) & Option::from(max).map_or(true, |max| self.c.lt_eq(&max))` -/
def withinC (v : α) : Bound α → Bool
  | .both lo hi => decide (lo ≤ v) && decide (v ≤ hi)
  | .minOnly lo => decide (lo ≤ v)
  | .untouched => true

def clampAll : List α → List (Bound α) → List α
  | v :: vs, b :: bs => clampC v b :: clampAll vs bs
  | vs, _ => vs
def withinAll : List α → List (Bound α) → Bool
  | v :: vs, b :: bs => withinC v b && withinAll vs bs
  | _, _ => true

/-- `TryFromColor::try_from_color`: `Ok(u)` iff `u.is_within_bounds()`, else `Err(OutOfBounds(u))` with the same value -/
def tryFrom (u : List α) (bs : List (Bound α)) : Except (List α) (List α) :=
  if withinAll u bs then .ok u else .error u
/-- `FromColor::from_color` -/
def fromColor (u : List α) (bs : List (Bound α)) : List α := clampAll u bs
end order

section hwb
variable {α : Type} [LT α] [LE α] [Add α] [Sub α] [Div α] [DecidableRel (α := α) (· < ·)] [DecidableRel (α := α) (· ≤ ·)]

/-- `crate::num::Clamp::clamp_max(v, hi)` = `f32::min(v, hi)` (non-NaN) -/
def clampMaxV (v hi : α) : α := if hi < v then hi else v

/-- `impl_clamp_hwb!::clamp` / `clamp_assign` (after the two D1 repairs: the divisor is computed from the *clamped*
    components, and when the sum was scaled down the scaled blackness is limited to `max − whiteness`, which only
    matters for rounding) -/
def hwbClamp (zero one w b : α) : α × α :=
  let w' := clampMinV w zero
  let b' := clampMinV b zero
  let sum := b' + w'
  let d := if one < sum then sum else one
  let w2 := w' / d
  let b2 := b' / d
  let b3 := if one < sum then clampMaxV b2 (one - w2) else b2
  (w2, b3)

/-- the by-value body as it was before the repair: `let sum = self.blackness + self.whiteness` (unclamped) -/
def hwbClampOld (zero one w b : α) : α × α :=
  let w' := clampMinV w zero
  let b' := clampMinV b zero
  let sum := b + w
  let d := if one < sum then sum else one
  (w' / d, b' / d)

/-- `impl_is_within_bounds_hwb!` -/
def hwbWithin (zero one w b : α) : Bool :=
  decide (zero ≤ b) && decide (b ≤ one) && decide (zero ≤ w) && decide (w ≤ one) && decide (w + b ≤ one)
end hwb

end Clamp
