/-
  C04 — model of the zero-copy casts: `palette/src/cast/array.rs`, `cast/uint.rs`, `cast/packed.rs`, the
  `*As/*From/*Into` cast traits (which only forward to the free functions) and the hand-written `ArrayCast` impls of
  `Alpha`, `PreAlpha`, `Packed` (`NextArray`).

  What Rust sees of a `&[E]`, `&mut [E]`, `Box<[E]>` or `Vec<E>` at run time is an address, a length and a capacity
  *counted in elements of `E`*; the casts never touch the memory, they only re-type the address and recompute the two
  counts.  The model is exactly that: `Buf` carries the raw parts plus the component sequence that lives at the
  address (flat, in address order), and every function below is the length/capacity arithmetic of the corresponding
  Rust function, statement for statement.  How a typed view reads the memory (`colorAt`, `fieldAt`) is the `repr(C)`
  layout of a struct of `n` homogeneous fields: colour `i`, field `j` is component `n*i + j`.

  Not modelled (Rust semantics, DESIGN §2.9-3): that the pointer cast itself is sound (size/alignment/validity); the
  crate asserts size and alignment at run time and the harness reports them (`layout` lines).
-/
import PaletteModel.Gen.Types

namespace Cast

/-- raw parts of a slice / boxed slice / vector, and the components stored at the address -/
structure Buf (α : Type) where
  id : Nat          -- the address (allocation identity)
  len : Nat         -- length, in elements of the buffer's element type
  cap : Nat         -- capacity, in elements (slices and boxed slices: `cap = len`)
  mem : List α      -- the initialised components at `id`, flat
deriving DecidableEq, Repr

/-- `SliceCastError`, `BoxedSliceCastError`, `VecCastErrorKind::{LengthMismatch, CapacityMismatch}` -/
inductive ErrKind where
  | slice | boxedSlice | lengthMismatch | capacityMismatch
deriving DecidableEq, Repr

/-- result of a cast: the re-typed buffer, an error (carrying the rejected buffer where the Rust error type does), or a panic -/
inductive Outcome (α : Type) where
  | ok (b : Buf α)
  | err (k : ErrKind) (returned : Option (Buf α))
  | panic
deriving DecidableEq, Repr

/-! ## casts that keep the element count: colour ↔ array, colour ↔ uint

`into_array_slice(_mut)`, `from_array_slice(_mut)`, `into_array_slice_box`, `from_array_slice_box`, `into_array_vec`,
`from_array_vec`, `into_uint_slice(_mut)`, `from_uint_slice(_mut)`, `into_uint_slice_box`, `from_uint_slice_box`,
`into_uint_vec`, `from_uint_vec`, and the single-value forms `into_array_ref/mut/box`, `from_array_ref/mut/box`,
`into_uint_ref/mut`, `from_uint_ref/mut` (`len = cap = 1`):
`from_raw_parts(values.as_ptr().cast(), values.len())` / `Vec::from_raw_parts(raw.cast(), values.len(), values.capacity())`. -/
def sameUnit (b : Buf α) : Buf α :=
  { id := b.id, len := b.len, cap := b.cap, mem := b.mem }

/-! ## colour buffer → component buffer

`into_component_slice(_mut)`: `let length = values.len() * T::Array::LENGTH; from_raw_parts(values.as_ptr().cast(), length)`;
`into_component_slice_box`: the same through `Box::leak`/`Box::from_raw`;
`into_component_vec`: `length = values.len() * LENGTH; capacity = values.capacity() * LENGTH; Vec::from_raw_parts(raw.cast(), length, capacity)`. -/
def intoComponents (n : Nat) (b : Buf α) : Buf α :=
  { id := b.id, len := b.len * n, cap := b.cap * n, mem := b.mem }

/-! ## component buffer → colour buffer -/

/-- `try_from_component_slice`, `try_from_component_slice_mut`:
    `if values.len() % LENGTH != 0 { return Err(SliceCastError) }; let length = values.len() / LENGTH; from_raw_parts(raw, length)`.
    A slice has no capacity of its own: `cap = len`. -/
def tryFromComponentSlice (n : Nat) (b : Buf α) : Outcome α :=
  if b.len % n ≠ 0 then .err .slice none
  else .ok { id := b.id, len := b.len / n, cap := b.len / n, mem := b.mem }

/-- `try_from_component_slice_box`: `if values.len() % LENGTH != 0 { return Err(BoxedSliceCastError { values }) }`, then
    `from_component_slice_mut(Box::leak(values))` (which cannot fail any more) -/
def tryFromComponentSliceBox (n : Nat) (b : Buf α) : Outcome α :=
  if b.len % n ≠ 0 then .err .boxedSlice (some b)
  else
    match tryFromComponentSlice n b with
    | .ok r => .ok r
    | _ => .panic        -- `.unwrap()` inside `from_component_slice_mut`

/-- `try_from_component_vec`: length test first, then capacity test, each handing the vector back inside the error;
    `length = values.len() / LENGTH; capacity = values.capacity() / LENGTH; Vec::from_raw_parts(raw.cast(), length, capacity)` -/
def tryFromComponentVec (n : Nat) (b : Buf α) : Outcome α :=
  if b.len % n ≠ 0 then .err .lengthMismatch (some b)
  else if b.cap % n ≠ 0 then .err .capacityMismatch (some b)
  else .ok { id := b.id, len := b.len / n, cap := b.cap / n, mem := b.mem }

/-- `from_component_slice(_mut)`, `from_component_slice_box`, `from_component_vec`, `FromComponents`, `ComponentsInto`,
    `ComponentsAs(Mut)`: `try_…(values).unwrap()` -/
def unwrap : Outcome α → Outcome α
  | .ok b => .ok b
  | _ => .panic

/-! ## fixed-size arrays by value (lengths are const generics, checked by `assert_eq!`) -/

/-- `into_component_array::<T, N, M>`: `assert_eq!(N * LENGTH, M)`; the array is moved (`transmute_copy`), so there is
    no address to preserve: `id` is whatever the caller passes -/
def intoComponentArray (n N M : Nat) (b : Buf α) : Outcome α :=
  if N * n ≠ M then .panic
  else .ok { id := b.id, len := M, cap := M, mem := b.mem }

/-- `from_component_array::<T, N, M>`: `assert_eq!(N % LENGTH, 0); assert_eq!(N / LENGTH, M)` -/
def fromComponentArray (n N M : Nat) (b : Buf α) : Outcome α :=
  if N % n ≠ 0 then .panic
  else if N / n ≠ M then .panic
  else .ok { id := b.id, len := M, cap := M, mem := b.mem }

/-! ## how a typed view reads the memory (`repr(C)`, `n` fields of one component type) -/

/-- the `i`-th colour of a buffer of `n`-channel colours, as its component list in field order -/
def colorAt (n : Nat) (b : Buf α) (i : Nat) : List α := (b.mem.drop (n * i)).take n

/-- field `j` of colour `i` -/
def fieldAt (n : Nat) (b : Buf α) (i j : Nat) : Option α := if j < n then b.mem[n * i + j]? else none

/-- the `k`-th element of a component buffer -/
def compAt (b : Buf α) (k : Nat) : Option α := b.mem[k]?

/-- all colours of the buffer -/
def colors (n : Nat) (b : Buf α) : List (List α) := (List.range b.len).map (colorAt n b)

/-- a buffer whose elements are `unit` components wide is well formed when the memory holds exactly `len` elements
    and the length does not exceed the capacity -/
def WF (unit : Nat) (b : Buf α) : Prop := b.mem.length = unit * b.len ∧ b.len ≤ b.cap

instance (unit : Nat) (b : Buf α) : Decidable (WF unit b) := by unfold WF; infer_instance

/-! ## unsigned-integer casts (`cast/uint.rs`): `transmute_copy` between two types of the same size -/

/-- `into_uint` on the bit pattern of the value -/
def intoUint {w : Nat} (c : BitVec w) : BitVec w := c
/-- `from_uint` -/
def fromUint {w : Nat} (u : BitVec w) : BitVec w := u

/-! ## the castable types: field order and channel count, from `Gen/Types.lean` -/

/-- a type that implements `ArrayCast` -/
inductive TyExpr where
  | base (name : String)          -- a `#[derive(ArrayCast)]` colour struct
  | alpha (t : TyExpr)            -- `Alpha<C, T>`
  | preAlpha (t : TyExpr)         -- `PreAlpha<C>`
  | packed (n : Nat)              -- `Packed<O, [T; n]>`
deriving Repr

def lookup (name : String) : Option Gen.Types.Ty := Gen.Types.types.find? (·.name == name)

/-- `NextArray::Next` of `[T; k]`, from the `impl_next_array!` chain -/
def nextLen (k : Nat) : Option Nat :=
  let rec go : List Nat → Option Nat
    | a :: b :: r => if a == k then some b else go (b :: r)
    | _ => none
  go Gen.Types.nextArrayChain

/-- `<C as ArrayCast>::Array::LENGTH` -/
def channels : TyExpr → Option Nat
  | .base nm => (lookup nm).map (·.arrayLen)
  | .alpha t => (channels t).bind nextLen
  | .preAlpha t => (channels t).bind nextLen
  | .packed n => some n

/-- flatten a wrapper struct (`Alpha`, `PreAlpha`: fields `color`, `alpha` in the order of the struct definition) -/
def wrapFields (w : Gen.Types.Ty) (inner : List String) : List String :=
  w.fields.flatMap fun f => if f == "color" then inner else [f]

/-- the names of the memory-occupying fields in address order (`repr(C)`: declaration order) -/
def fieldsOf : TyExpr → Option (List String)
  | .base nm => (lookup nm).map (·.fields)
  | .alpha t => (fieldsOf t).map (wrapFields Gen.Types.alpha)
  | .preAlpha t => (fieldsOf t).map (wrapFields Gen.Types.preAlpha)
  | .packed n => some ((List.range n).map toString)

/-- `pre ++ x ++ ">"` ↦ `x` -/
def unwrapAngle (pre : String) (s : String) : Option String :=
  let p := pre.toList
  let l := s.toList
  if p.isPrefixOf l && l.getLast? == some '>' then some (String.ofList ((l.drop p.length).dropLast)) else none

/-- `Alpha<Hsl>`, `PreAlpha<Rgb>`, `Packed<4>`, `Hsl`; the fuel bounds the nesting depth -/
def parseTyFuel : Nat → String → Option TyExpr
  | 0, _ => none
  | k + 1, s =>
    match unwrapAngle "Alpha<" s with
    | some x => (parseTyFuel k x).map .alpha
    | none =>
    match unwrapAngle "PreAlpha<" s with
    | some x => (parseTyFuel k x).map .preAlpha
    | none =>
    match unwrapAngle "Packed<" s with
    | some x => x.toNat?.map .packed
    | none => if (lookup s).isSome then some (.base s) else none

def parseTy (s : String) : Option TyExpr := parseTyFuel 4 s

/-- layout the crate asserts before every pointer cast: the colour is exactly `n` components, equally aligned -/
def layoutOk (n sizeT alignT sizeC alignC : Nat) : Bool := sizeC == n * sizeT && alignC == alignT

end Cast
