/-
  C13 — symbolic model of the in-place conversions and their scope guards.

  Transcribed from
    palette/src/convert/from_into_color_mut.rs            (`FromColorMut`, `IntoColorMut`, `FromColorMutGuard`)
    palette/src/convert/from_into_color_unclamped_mut.rs  (the same three, unclamped)
    palette/src/convert/from_into_color.rs / from_into_color_unclamped.rs   (`FromColor` for `Vec<T>` and `Box<[T]>`)
    palette/src/cast/array.rs                              (`map_vec_in_place`, `map_slice_box_in_place`)

  The model is *symbolic*: a buffer element is not a colour but the **term** that denotes it,

      Term ::= src i                 -- the i-th colour the buffer held initially
             | written k             -- the k-th colour stored through a guard's `DerefMut` (or through the owner)
             | conv clamped a b t    -- the ordinary by-value conversion of `t`, read as a colour of type `a`, to type `b`
                                     --   clamped = true : `B::from_color(t)`            (= `from_color_unclamped(t).clamp()`)
                                     --   clamped = false: `B::from_color_unclamped(t)`

  so "in place = out of place" and "restored by a single back-conversion" are statements about terms, and hold
  bit for bit whatever the conversions compute.  The harness evaluates the terms with the real out-of-place
  conversions and compares them with the real buffer (`harness/src/c13.rs`); the driver checks that the terms the
  harness used are the ones this model produces (`InPlaceDriver.lean`).

  What is kept from the Rust code, because the property is about it:
    * a guard is `{ current : Option<&mut T>, original : PhantomData<U> }`; every method first `take()`s `current`,
      and every guard value that goes out of scope runs `Drop` (`dropGuard`), which converts back iff `current` is
      still `Some` — including the moved-from `self` and the temporary inner guard of `then_into_*`/`restore`;
    * `mem::forget` runs no `Drop`;
    * the conversions are chosen by the *static* types (`T`, `U`, `C` of the guard type), not by what the memory holds.
  No Mathlib here (this file is linked into the driver).
-/

namespace InPlace

/-- a colour type of one layout-compatible family (index into the harness's type list) -/
abbrev Ty := Nat

inductive Term where
  | src (i : Nat)
  | written (k : Nat)
  | conv (clamped : Bool) (a b : Ty) (t : Term)
  deriving DecidableEq, Repr, Inhabited

/-- which owner the memory has: a single colour, a borrowed slice, a `Vec<T>`, a `Box<[T]>` -/
inductive Form where
  | single | slice | vec | boxed
  deriving DecidableEq, Repr, Inhabited

/-- the memory region: address, capacity (in elements), the colour type its contents were last converted to
    (`tag`), and the contents -/
structure Buffer where
  id : Nat
  cap : Nat
  tag : Ty
  elems : List Term
  deriving DecidableEq, Repr, Inhabited

/-- `FromColorMutGuard<'a, T, U>` (`clamped = true`) / `FromColorUnclampedMutGuard<'a, T, U>` (`clamped = false`):
    `current : Option<&'a mut T>` is modelled by the static type `T` of the reference it holds, if any;
    `original : PhantomData<&'a mut U>` by `U`. -/
structure Guard where
  current : Option Ty
  original : Ty
  clamped : Bool
  deriving DecidableEq, Repr, Inhabited

/-- `Option::take` on `self.current` : the value, and the guard it leaves behind -/
def Guard.take (g : Guard) : Option Ty × Guard := (g.current, { g with current := none })

/-! ## `FromColorMut::from_color_mut` / `FromColorUnclampedMut::from_color_unclamped_mut` -/

/-- `impl<T, U> FromColorMut<U> for T` (from_into_color_mut.rs:113-131), on the term of the one colour:
    ```
    let color_clone = color.clone();
    let result: &mut T = cast::from_array_mut(cast::into_array_mut(color));
    *result = color_clone.into_color();           // unclamped variant: into_color_unclamped()
    FromColorMutGuard { current: Some(result), original: PhantomData }
    ``` -/
def fromColorMutElem (cl : Bool) (U T : Ty) (color : Term) : Guard × Term :=
  let colorClone := color
  let result := Term.conv cl U T colorClone
  ({ current := some T, original := U, clamped := cl }, result)

/-- `impl<T, U> FromColorMut<[U]> for [T]` (from_into_color_mut.rs:133-152):
    ```
    for color in &mut *colors { core::mem::forget(T::from_color_mut(color)); }   // forgotten: no Drop
    FromColorMutGuard { current: Some(cast::from_array_slice_mut(cast::into_array_slice_mut(colors))), .. }
    ``` -/
def fromColorMutSlice (cl : Bool) (U T : Ty) (colors : List Term) : Guard × List Term :=
  let colors' := colors.map fun color => (fromColorMutElem cl U T color).2
  ({ current := some T, original := U, clamped := cl }, colors')

/-- `T::from_color_mut(r)` for a reference `r : &mut U` (or `&mut [U]`) into the buffer: the same memory, now
    holding colours of type `T`.  A single colour is the one-element case of the first impl. -/
def fromColorMut (cl : Bool) (U T : Ty) (form : Form) (b : Buffer) : Guard × Buffer :=
  match form with
  | .single =>
    match b.elems with
    | color :: rest =>
      let (g, c') := fromColorMutElem cl U T color
      (g, { b with tag := T, elems := c' :: rest })
    | [] => ({ current := some T, original := U, clamped := cl }, { b with tag := T })
  | _ =>
    let (g, cs) := fromColorMutSlice cl U T b.elems
    (g, { b with tag := T, elems := cs })

/-! ## the guard -/

/-- `impl Drop for From…MutGuard` (from_into_color_mut.rs:351-361):
    `core::mem::forget(self.current.take().map(U::from_color_mut));` -/
def dropGuard (form : Form) (self : Guard) (b : Buffer) : Buffer :=
  let (taken, _) := self.take
  match taken with
  | none => b
  | some T => (fromColorMut self.clamped T self.original form b).2      -- the new guard is forgotten

/-- `self.current.take().map(X::from_color_mut).and_then(|mut guard| guard.current.take())`, the expression shared by
    `then_into_color_mut`, `then_into_color_unclamped_mut` and `restore`; the closure's `guard` and then `self`
    go out of scope, so both run `Drop`.  Returns the reference that was moved out (its static type) and the memory. -/
def takeMapTake (form : Form) (cl : Bool) (X : Ty) (self : Guard) (b : Buffer) : Option Ty × Buffer :=
  let (taken, self') := self.take
  let (inner, b1) : Option Guard × Buffer :=
    match taken with
    | none => (none, b)
    | some T => let (g, b') := fromColorMut cl T X form b; (some g, b')
  let (moved, b2) : Option Ty × Buffer :=
    match inner with
    | none => (none, b1)
    | some guard => let (c, guard') := guard.take; (c, dropGuard form guard' b1)
  (moved, dropGuard form self' b2)

/-- `then_into_color_mut::<C>()` (`cl = true`) / `then_into_color_unclamped_mut::<C>()` (`cl = false`), on either guard type -/
def thenInto (form : Form) (cl : Bool) (C : Ty) (self : Guard) (b : Buffer) : Guard × Buffer :=
  let (moved, b') := takeMapTake form cl C self b
  ({ current := moved, original := self.original, clamped := cl }, b')

/-- `into_unclamped_guard()` / `into_clamped_guard()`:
    `From…Guard { current: self.current.take(), original: PhantomData }`, then `self` is dropped -/
def switchGuard (form : Form) (self : Guard) (b : Buffer) : Guard × Buffer :=
  let (taken, self') := self.take
  ({ current := taken, original := self.original, clamped := !self.clamped }, dropGuard form self' b)

/-- `restore()`: returns `&'a mut U` (its static type), or hits `unreachable!()` -/
def restore (form : Form) (self : Guard) (b : Buffer) : Option (Ty × Buffer) :=
  let (restored, b') := takeMapTake form self.clamped self.original self b
  match restored with
  | some U => some (U, b')
  | none => none

/-! ## `FromColor for Vec<T>` / `Box<[T]>` through `cast::map_vec_in_place` / `map_slice_box_in_place` -/

/-- the loop of `map_vec_in_place` (cast/array.rs:1421-1447): `input = ptr::read(item); ptr::write(item, map(input))`
    for every item in order -/
def readMapWrite (map : Term → Term) : List Term → List Term
  | [] => []
  | item :: rest => let input := item; let output := map input; output :: readMapWrite map rest

/-- `into_array_vec` and `from_array_vec` keep pointer, length and capacity (`Vec::from_raw_parts(raw.cast(), len, cap)`),
    the boxed-slice casts keep pointer and length -/
def mapInPlace (cl : Bool) (A B : Ty) (b : Buffer) : Buffer :=
  { b with tag := B, elems := readMapWrite (Term.conv cl A B) b.elems }

/-! ## histories -/

structure State where
  form : Form
  /-- static element type of the owner (`U` of `&mut [U]`, `Vec<U>`, …) -/
  rootTy : Ty
  buf : Buffer
  /-- the live guards, innermost first; an inner guard borrows from the next one through `DerefMut` -/
  guards : List Guard
  deriving DecidableEq, Repr, Inhabited

inductive Op where
  /-- `T::from_color_mut(v)` / `v.into_color_mut()` (`cl = false`: the unclamped trait) on the innermost access path -/
  | fromColorMut (cl : Bool) (T : Ty)
  /-- read through `Deref` (or through the owner) -/
  | deref
  /-- `guard[i] = k-th written colour` through `DerefMut` (or through the owner) -/
  | write (i k : Nat)
  | thenInto (C : Ty)
  | thenIntoUnclamped (C : Ty)
  | intoUnclampedGuard
  | intoClampedGuard
  | restore
  | drop
  | forget
  /-- `Vec::<T>::from_color(vec)` / `Box::<[T]>::from_color(boxed)` by value -/
  | ownedFromColor (cl : Bool) (T : Ty)
  deriving DecidableEq, Repr, Inhabited

/-- static element type of the innermost access path: `Deref::Target` of the innermost guard, else the owner's type -/
def viewTy (root : Ty) : List Guard → Option Ty
  | [] => some root
  | g :: _ => g.current

/-- one operation; `none` = the operation is not expressible in Rust at this point (no such method on this guard type,
    no live guard, owner borrowed) or it panics (`unreachable!()`, index out of bounds) -/
def step (op : Op) (s : State) : Option State :=
  match op, s.guards with
  | .fromColorMut cl T, [] =>
    let (g, b) := fromColorMut cl s.rootTy T s.form s.buf
    some { s with buf := b, guards := [g] }
  | .fromColorMut cl T, g :: gs =>
    match g.current with          -- `DerefMut`: `if let Some(current) = self.current.as_mut() { current } else { unreachable!() }`
    | none => none
    | some cur =>
      let (g', b) := fromColorMut cl cur T s.form s.buf
      some { s with buf := b, guards := g' :: g :: gs }
  | .deref, gs => (viewTy s.rootTy gs).map fun _ => s
  | .write i k, gs =>
    if i < s.buf.elems.length then
      (viewTy s.rootTy gs).map fun _ => { s with buf := { s.buf with elems := s.buf.elems.set i (.written k) } }
    else none
  | .thenInto C, g :: gs =>
    let (g', b) := thenInto s.form true C g s.buf
    some { s with buf := b, guards := g' :: gs }
  | .thenIntoUnclamped C, g :: gs =>
    let (g', b) := thenInto s.form false C g s.buf
    some { s with buf := b, guards := g' :: gs }
  | .intoUnclampedGuard, g :: gs =>
    if g.clamped then let (g', b) := switchGuard s.form g s.buf; some { s with buf := b, guards := g' :: gs } else none
  | .intoClampedGuard, g :: gs =>
    if g.clamped then none else let (g', b) := switchGuard s.form g s.buf; some { s with buf := b, guards := g' :: gs }
  | .restore, g :: gs =>
    match restore s.form g s.buf with
    | some (_, b) => some { s with buf := b, guards := gs }
    | none => none
  | .drop, g :: gs => some { s with buf := dropGuard s.form g s.buf, guards := gs }
  | .forget, _ :: gs => some { s with guards := gs }
  | .ownedFromColor cl T, [] =>
    if s.form = .vec ∨ s.form = .boxed then
      some { s with rootTy := T, buf := mapInPlace cl s.rootTy T s.buf }
    else none
  | _, _ => none

def run : List Op → State → Option State
  | [], s => some s
  | op :: ops, s => (step op s).bind (run ops)

/-- a buffer of `n` colours of type `U` that nothing has touched yet -/
def fresh (form : Form) (U : Ty) (id cap n : Nat) : State :=
  { form := form, rootTy := U, buf := { id := id, cap := cap, tag := U, elems := (List.range n).map Term.src }, guards := [] }

/-! ## the ordinary, out-of-place conversion (what `from_color` applied element by element denotes) -/

def outOfPlace (cl : Bool) (A B : Ty) (colors : List Term) : List Term := colors.map (Term.conv cl A B)

/-- all colours of a buffer converted by the ordinary conversion, the buffer now holding type `B` -/
def convAll (cl : Bool) (A B : Ty) (b : Buffer) : Buffer := { b with tag := B, elems := outOfPlace cl A B b.elems }

/-! ## the property as a specification: the same histories, written directly

  No `Option` bookkeeping, no temporaries: a conversion converts every colour once with the ordinary conversion, a guard
  records where to go back to, `drop`/`restore` convert back **once** from the current type, `forget` does nothing. -/
def specStep (op : Op) (s : State) : Option State :=
  match op, s.guards with
  | .fromColorMut cl T, gs =>
    (viewTy s.rootTy gs).map fun U => { s with buf := convAll cl U T s.buf, guards := { current := some T, original := U, clamped := cl } :: gs }
  | .deref, gs => (viewTy s.rootTy gs).map fun _ => s
  | .write i k, gs =>
    if i < s.buf.elems.length then
      (viewTy s.rootTy gs).map fun _ => { s with buf := { s.buf with elems := s.buf.elems.set i (.written k) } }
    else none
  | .thenInto C, g :: gs =>
    g.current.map fun T => { s with buf := convAll true T C s.buf, guards := { current := some C, original := g.original, clamped := true } :: gs }
  | .thenIntoUnclamped C, g :: gs =>
    g.current.map fun T => { s with buf := convAll false T C s.buf, guards := { current := some C, original := g.original, clamped := false } :: gs }
  | .intoUnclampedGuard, g :: gs => if g.clamped then some { s with guards := { g with clamped := false } :: gs } else none
  | .intoClampedGuard, g :: gs => if g.clamped then none else some { s with guards := { g with clamped := true } :: gs }
  | .restore, g :: gs => g.current.map fun T => { s with buf := convAll g.clamped T g.original s.buf, guards := gs }
  | .drop, g :: gs => g.current.map fun T => { s with buf := convAll g.clamped T g.original s.buf, guards := gs }
  | .forget, _ :: gs => some { s with guards := gs }
  | .ownedFromColor cl T, [] =>
    if s.form = .vec ∨ s.form = .boxed then some { s with rootTy := T, buf := convAll cl s.rootTy T s.buf } else none
  | _, _ => none

def specRun : List Op → State → Option State
  | [], s => some s
  | op :: ops, s => (specStep op s).bind (specRun ops)

end InPlace
