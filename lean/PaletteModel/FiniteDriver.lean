/-
  C07 correspondence: `convfin <Src[:cfg]> <Dst[:cfg]> | c0 c1 c2 | d0 d1 d2` — the `conv` comparison (same edges, same
  tolerance) **plus** agreement of the finite / NaN / +inf / −inf class of every output component.  (`closeAbs*` alone lets an
  infinite value pass against a finite one, because its tolerance scales with the larger magnitude; for C07 the class *is* the
  output under test.)
-/
import PaletteModel.ConvDriver

namespace Fin7
open Proto

/-- 0 finite, 1 NaN, 2 +inf, 3 −inf -/
def cls64 (x : Float) : Nat := if x.isNaN then 1 else if x.isInf then (if x > 0.0 then 2 else 3) else 0
def cls32 (x : Float32) : Nat := if x.isNaN then 1 else if x.isInf then (if x > 0.0 then 2 else 3) else 0

def tagOf (cs : List Nat) : String := if cs.all (· == 0) then "finite" else "non-finite"

def handle (cfg inp outp : List String) : Verdict :=
  match cfg with
  | [s, d] =>
    let (src, dst) := (Conv.tyCfg s, Conv.tyCfg d)
    let classes : Except String (List Nat × List Nat) :=
      match (inp.mapM f32?).bind (Conv.pad3 (0.0 : Float32)), outp.mapM f32? with
      | some i, some o =>
        match Conv.edge? (α := Float32) src dst with
        | none => .error s!"no model edge {s} -> {d}"
        | some e => .ok (o.map cls32, ((e.f i).toList.take o.length).map cls32)
      | _, _ =>
        match (inp.mapM f64?).bind (Conv.pad3 (0.0 : Float)), outp.mapM f64? with
        | some i, some o =>
          match Conv.edge? (α := Float) src dst with
          | none => .error s!"no model edge {s} -> {d}"
          | some e => .ok (o.map cls64, ((e.f i).toList.take o.length).map cls64)
        | _, _ => .error "unparsable convfin line"
    match classes with
    | .error m => .bad m
    | .ok (ci, cm) =>
      if ci != cm then .disagree s!"finite/NaN/inf class differs: implementation {ci}, model {cm} (0 finite, 1 NaN, 2 +inf, 3 -inf)"
      else match Conv.handle cfg inp outp with
        | .agree tags => .agree (tags.map (· ++ ":" ++ tagOf ci))
        | v => v
  | _ => .bad "malformed convfin line"

end Fin7
