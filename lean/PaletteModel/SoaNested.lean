/-
  C18 — the nesting of `Alpha`: `Alpha<Color<Vec<T>>, Vec<A>>` as the macro builds it.

  `Soa.lean` treats a colour with alpha as `k + 1` flat columns (colour columns, then the alpha column).  The real type
  is a *pair*: a colour collection (`k` columns: the colour type's own `push`/`pop`/`drain`/`get`/`Iter`…, i.e.
  `Soa.step` / `Soa.Zip` at `k`) and one more `Vec<A>`, driven in lockstep by the `Alpha` impls of
  `macros/struct_of_arrays.rs` (`with_capacity`, `push`, `pop`, `clear`, `drain`, `get`, `get_mut`) and of
  `alpha/alpha.rs` (`Extend`, `FromIterator`, `alpha::Iter::{next, next_back, len, size_hint, count}`).
  This file transcribes exactly that: every operation first calls the colour's own operation, then the alpha vector's.
  `PaletteProofs/C18_SoaNested.lean` proves that it is the flat `(k+1)`-column model, operation by operation, on every
  state (equal lengths or not).  The driver replays every `+alpha` history through this model too.
-/
import PaletteModel.Soa

namespace Soa

/-- `Alpha { color: Color<Vec<T>>, alpha: Vec<A> }` -/
structure Nest (α : Type) (k : Nat) where
  color : Cols α k
  alpha : List α

/-- `value.color` of an `Alpha<Color<T>, A>` given as a flat row (colour components, then alpha) -/
def rowColor {α : Type} {k : Nat} (r : Row α (k + 1)) : Row α k := Vector.ofFn fun j : Fin k => r[j.val]

/-- `value.alpha` -/
def rowAlpha {α : Type} {k : Nat} (r : Row α (k + 1)) : α := r[k]

/-- `if let (Some(color), Some(alpha)) = (color, alpha) { Some(Alpha { color, alpha }) } else { None }` -/
def joinItem {α : Type} {k : Nat} : Option (Row α k) → Option α → Option (Row α (k + 1))
  | some c, some a => some (c.push a)
  | _, _ => none

/-- the `Option<Color>` an inner operation returned -/
def itemOf {α : Type} {k : Nat} : Obs α k → Option (Row α k)
  | .item o => o
  | _ => none

/-- the flat view: colour columns, then the alpha column -/
def Nest.flat {α : Type} {k : Nat} (n : Nest α k) : Cols α (k + 1) := n.color.push n.alpha

/-! ## `alpha::Iter { color, alpha }` -/

/-- `color`: the colour type's own `Iter<I>` (`Soa.Zip` at `k`); `pre/rest/post`: the alpha column's iterator -/
structure NZip (α : Type) (k : Nat) where
  color : Zip α k
  pre : List α
  rest : List α
  post : List α

/-- `let color = self.color.next(); let alpha = self.alpha.next();` — both are advanced, the item exists if both yielded.
    A write `w` goes through the `&mut` references of the *item*, so it happens only if the item exists: the colour's
    iterator is handed the colour part of `w` exactly when the alpha iterator yielded too. -/
def NZip.next {α : Type} {k : Nat} (z : NZip α k) (w : Option (Row α (k + 1))) : NZip α k × Option (Row α (k + 1)) :=
  let ha := z.rest.head?
  let wc : Option (Row α k) := match ha, w with | some _, some wr => some (rowColor wr) | _, _ => none
  let rc := z.color.next wc
  let item := joinItem rc.2 ha
  let pre' := z.pre ++ (match ha with
    | none => []
    | some a => [match item, w with | some _, some wr => rowAlpha wr | _, _ => a])
  ({ color := rc.1, pre := pre', rest := z.rest.tail, post := z.post }, item)

def NZip.nextBack {α : Type} {k : Nat} (z : NZip α k) (w : Option (Row α (k + 1))) : NZip α k × Option (Row α (k + 1)) :=
  let la := z.rest.getLast?
  let wc : Option (Row α k) := match la, w with | some _, some wr => some (rowColor wr) | _, _ => none
  let rc := z.color.nextBack wc
  let item := joinItem rc.2 la
  let post' := (match la with
    | none => []
    | some a => [match item, w with | some _, some wr => rowAlpha wr | _, _ => a]) ++ z.post
  ({ color := rc.1, pre := z.pre, rest := z.rest.dropLast, post := post' }, item)

/-- `len()`, `size_hint()`, `count()` are the colour iterator's (the alpha's is only `debug_assert`ed against it) -/
def NZip.step {α : Type} {k : Nat} (z : NZip α k) : Step α (k + 1) → NZip α k × SObs α (k + 1)
  | .next w => let r := z.next w; (r.1, .item r.2)
  | .nextBack w => let r := z.nextBack w; (r.1, .item r.2)
  | .len => (z, .len z.color.len)
  | .sizeHint => (z, .hint z.color.sizeHint.1 z.color.sizeHint.2)
  | .count => (z, .count z.color.count)

def NZip.run {α : Type} {k : Nat} (z : NZip α k) : List (Step α (k + 1)) → NZip α k × List (SObs α (k + 1))
  | [] => (z, [])
  | s :: t => let r := z.step s; let r' := r.1.run t; (r'.1, r.2 :: r'.2)

def NZip.close {α : Type} {k : Nat} (z : NZip α k) : Nest α k := { color := z.color.close, alpha := z.pre ++ z.rest ++ z.post }

def NZip.ofParts {α : Type} {k : Nat} (c : Cols α k) (a : List α) : NZip α k := { color := Zip.ofCols c, pre := [], rest := a, post := [] }

def nrunRead {α : Type} {k : Nat} (c : Cols α k) (a : List α) (script : List (Step α (k + 1))) : List (SObs α (k + 1)) :=
  ((NZip.ofParts c a).run (script.map Step.readOnly)).2

/-! ## operations -/

/-- `for color in iter { self.color.extend(once(color.color)); self.alpha.extend(once(color.alpha)); }` -/
def nextend {α : Type} {k : Nat} (n : Nest α k) (rs : List (Row α (k + 1))) : Nest α k :=
  rs.foldl (fun n r => { color := (step n.color (.extend [rowColor r])).1, alpha := n.alpha ++ [rowAlpha r] }) n

def nstep {α : Type} {k : Nat} (n : Nest α k) : Op α (k + 1) → Nest α k × Obs α (k + 1)
  -- `self.color.push(value.color); self.alpha.push(value.alpha);`
  | .push r => ({ color := (step n.color (.push (rowColor r))).1, alpha := n.alpha ++ [rowAlpha r] }, .unit)
  -- `let color = self.color.pop(); let alpha = self.alpha.pop(); Some(Alpha { color: color?, alpha: alpha? })`
  | .pop =>
    let c := step n.color .pop
    ({ color := c.1, alpha := n.alpha.dropLast }, .item (joinItem (itemOf c.2) n.alpha.getLast?))
  | .extend rs => (nextend n rs, .unit)
  -- `Self { color: C::from_iter(None), alpha: A::default() }`, then the `extend` loop
  | .collect rs => (nextend { color := (step n.color (.collect [])).1, alpha := [] } rs, .unit)
  -- `Alpha { color: Color::with_capacity(capacity), alpha: Vec::with_capacity(capacity) }`
  | .withCapacity => ({ color := (step n.color .withCapacity).1, alpha := [] }, .unit)
  -- `self.color.clear(); self.alpha.clear();`
  | .clear => ({ color := (step n.color .clear).1, alpha := [] }, .unit)
  -- `alpha::Iter { color: self.color.drain(range.clone()), alpha: self.alpha.drain(range) }`: the colour's own drain first
  -- (its state is `self.color.drain(..)`'s in every case: if the alpha's `Vec::drain` panics, the colour's `Iter<Drain>` is
  -- dropped while unwinding, i.e. the colour's drain completes)
  | .drain r script =>
    let c' := (step n.color (.drain r [])).1
    match allSome (n.color.map (drainCol r)) with
    | none => ({ color := c', alpha := n.alpha }, .panic)
    | some v =>
      match drainCol r n.alpha with
      | none => ({ color := c', alpha := n.alpha }, .panic)
      | some pa => ({ color := c', alpha := pa.1 }, .steps (nrunRead (v.map (·.2)) pa.2 script))
  -- `let color = self.color.get(index.clone()); let alpha = self.alpha.as_ref().get(index);`
  | .get i => (n, .item (joinItem (itemOf (step n.color (.get i)).2) n.alpha[i]?))
  | .getRange r script =>
    match allSome (n.color.map (sliceCol r)), sliceCol r n.alpha with
    | some sub, some sa => (n, .steps (nrunRead sub sa script))
    | _, _ => (n, .noSlice)
  -- `get_mut(i)` hands out references; the write goes through the item, so only if both were `Some`
  | .getMut i w =>
    match itemOf (step n.color (.get i)).2, n.alpha[i]? with
    | some oc, some oa => ({ color := (step n.color (.getMut i (rowColor w))).1, alpha := n.alpha.set i (rowAlpha w) }, .item (some (oc.push oa)))
    | _, _ => (n, .item none)
  | .getMutRange r script =>
    match allSome (n.color.map (splitCol r)), splitCol r n.alpha with
    | some v, some pa =>
      let res := (NZip.mk (Zip.mk (v.map (·.1)) (v.map (·.2.1)) (v.map (·.2.2))) pa.1 pa.2.1 pa.2.2).run script
      (res.1.close, .steps res.2)
    | _, _ => (n, .noSlice)
  -- `alpha::Iter { color: (&self.color).into_iter(), alpha: self.alpha.iter() }`
  | .iter script => (n, .steps (nrunRead n.color n.alpha script))
  | .iterMut script => let res := (NZip.ofParts n.color n.alpha).run script; (res.1.close, .steps res.2)
  | .rev => (n, .steps (nrunRead n.color n.alpha (List.replicate (firstLen n.color + 1) (.nextBack none))))
  | .intoIter => (n, .steps (nrunRead n.color n.alpha (List.replicate (firstLen n.color + 1) (.next none))))
  | .len => (n, .lens (firstLen n.color) ((n.color.map List.length).push n.alpha.length))
  -- as `.drain`, the iterator leaked; a panic of the alpha's `Vec::drain` still *drops* the colour's drain
  | .forgetDrain r script =>
    match allSome (n.color.map (forgetCol r)) with
    | none => ({ color := (step n.color (.forgetDrain r [])).1, alpha := n.alpha }, .panic)
    | some v =>
      match forgetCol r n.alpha with
      | none => ({ color := (step n.color (.drain r [])).1, alpha := n.alpha }, .panic)
      | some pa => ({ color := (step n.color (.forgetDrain r [])).1, alpha := pa.1 }, .steps (nrunRead (v.map (·.2)) pa.2 script))

def nrun {α : Type} {k : Nat} (n : Nest α k) : List (Op α (k + 1)) → Nest α k × List (Obs α (k + 1))
  | [] => (n, [])
  | o :: t => let r := nstep n o; let r' := nrun r.1 t; (r'.1, r.2 :: r'.2)

/-- `Alpha::with_capacity(0)` -/
def emptyNest (α : Type) (k : Nat) : Nest α k := { color := emptyCols α k, alpha := [] }

end Soa
