/-
  Chromatic adaptation (`chromatic_adaptation.rs`): `adaptation_matrix`, `diagonal_matrix`, the deprecated
  `TransformMatrix::generate_transform_matrix`, and `Matrix3::{then, convert_once}` / `matrix::matrix_inverse`.
-/
import PaletteModel.Color.Basic

namespace Adapt
open Scalar
variable {α : Type} [Scalar α]

def coneMatrices? (name : String) : Option (List K × List K) :=
  (Gen.Mat.coneMatrices.find? (·.1 == name)).map fun (_, a, b) => (a, b)

/-- `Xyz::normalize`: `self / y` -/
def normalize (w : V3 α) : V3 α := ⟨w.c0 / w.c1, w.c1 / w.c1, w.c2 / w.c1⟩

/-- `diagonal_matrix(input_wp, output_wp)`: `gain = output_wp / input_wp` on the diagonal -/
def diagonalMatrix (i o : V3 α) : M3 α :=
  ⟨o.c0 / i.c0, 0.0, 0.0,  0.0, o.c1 / i.c1, 0.0,  0.0, 0.0, o.c2 / i.c2⟩

/-- `adaptation_matrix::<T, I, O, M>(None, None)`:
    `input_to_lms.then(diagonal_matrix(in_lms, out_lms)).then(lms_to_output)` with `a.then(b) = multiply_3x3(b, a)` -/
def adaptationMatrix (x2l l2x : M3 α) (wi wo : V3 α) : M3 α :=
  let li := x2l.mulVec (normalize wi)
  let lo := x2l.mulVec (normalize wo)
  M3.mul l2x (M3.mul (diagonalMatrix li lo) x2l)

/-- `TransformMatrix::generate_transform_matrix` (deprecated API): no normalisation of the white points -/
def generateTransformMatrix (ma invMa : M3 α) (ws wd : V3 α) : M3 α :=
  let rs := ma.mulVec ws
  let rd := ma.mulVec wd
  M3.mul invMa (M3.mul (diagonalMatrix rs rd) ma)

/-- `matrix::matrix_inverse` (panics when the determinant is not a valid divisor: `none`) -/
def matrixInverse (a : M3 α) : Option (M3 α) :=
  let d0 := a.m4 * a.m8 - a.m5 * a.m7
  let d1 := a.m3 * a.m8 - a.m5 * a.m6
  let d2 := a.m3 * a.m7 - a.m4 * a.m6
  let det := a.m0 * d0 - a.m1 * d1 + a.m2 * d2
  let d3 := a.m1 * a.m8 - a.m2 * a.m7
  let d4 := a.m0 * a.m8 - a.m2 * a.m6
  let d5 := a.m0 * a.m7 - a.m1 * a.m6
  let d6 := a.m1 * a.m5 - a.m2 * a.m4
  let d7 := a.m0 * a.m5 - a.m2 * a.m3
  let d8 := a.m0 * a.m4 - a.m1 * a.m3
  if isValidDivisor det then
    let r := 1.0 / det
    some ⟨d0 * r, -d3 * r, d6 * r, -d1 * r, d4 * r, -d7 * r, d2 * r, -d5 * r, d8 * r⟩
  else none

def M3.toList (m : M3 α) : List α := [m.m0, m.m1, m.m2, m.m3, m.m4, m.m5, m.m6, m.m7, m.m8]

end Adapt
