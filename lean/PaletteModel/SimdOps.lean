/-
  C17 — mask-generic bodies that the translator does not produce: trait-dispatched glue between translated bodies (Rgb ↔ Xyz,
  standard changes, Lms, Rgb ↔ Oklab), the colour operators (`macros/mix.rs`, `macros/lighten_saturate.rs`, `macros/hue.rs`,
  `macros/arithmetics.rs`: macro bodies with `$component` metavariables) and the blending / compositing pipeline around the eleven
  per-mode functions (`blend/blend.rs`, `blend.rs`, `macros/blend.rs`, `blend/compose.rs`).

  Each definition is the hand model's function (`Color/RgbFamily.lean`, `Color/Ok.lean`, `Color/Cie.lean`, `Ops.lean`, `Blend.lean`)
  written against the mask-generic interface instead of `Scalar`: same expression, `lazy_select!` as `lazySelect`, the translated
  callees as `Gen.BodyV.*`.  `PaletteProofs/C17_TieOps.lean` proves each of them, at `Mask = bool`, *equal* to the hand model
  function (law-free, every `[Scalar α]`), so they are restatements in the sense of the rules, not a second model.

  `Clamp::clamp` is a per-type primitive with two implementations — `f32::clamp` (`if x < min {min} else if x > max {max} else {x}`,
  `Scalar.clamp`) and, for the wide types, `self.min(max).max(min)` (`Simd.clampMinMax`) — so the bodies that call `crate::clamp`
  take it as the parameter `cl`; `C17_MaskPairs` relates the two.

  No Mathlib import (model file).
-/
import PaletteModel.Gen.BodiesV
import PaletteModel.Color.RgbFamily
import PaletteModel.Color.Ok
import PaletteModel.Ops
import PaletteModel.Blend

namespace SimdOps
open Simd
variable {α μ : Type} [VScalar α μ]

/-! ## conversions: the glue around the translated bodies -/

section fused
variable [VFused α]

/-- `TransferFn::into_linear` dispatched over the standard's transfer function (as `Transfer.intoLinear`) -/
def intoLinear : Transfer.Fn → α → α
  | .srgb => Gen.BodyV.srgbIntoLinear | .recOetf => Gen.BodyV.recIntoLinear | .adobeRgb => Gen.BodyV.adobeIntoLinear
  | .p3Gamma => Gen.BodyV.p3IntoLinear | .prophoto => Gen.BodyV.prophotoIntoLinear | .gamma22 => Gen.BodyV.gammaIntoLinear
  | .linear => id
def fromLinear : Transfer.Fn → α → α
  | .srgb => Gen.BodyV.srgbFromLinear | .recOetf => Gen.BodyV.recFromLinear | .adobeRgb => Gen.BodyV.adobeFromLinear
  | .p3Gamma => Gen.BodyV.p3FromLinear | .prophoto => Gen.BodyV.prophotoFromLinear | .gamma22 => Gen.BodyV.gammaFromLinear
  | .linear => id

/-- `Rgb::into_linear` / `Rgb::from_linear` (as `RgbFam.intoLinear/fromLinear`) -/
def rgbIntoLinear (tf : Transfer.Fn) (c : V3 α) : V3 α := c.map (intoLinear tf)
def rgbFromLinear (tf : Transfer.Fn) (c : V3 α) : V3 α := c.map (fromLinear tf)

/-- `Xyz ← Rgb<S>` (xyz.rs): the hard-coded matrix through `T::Scalar::from_f64` and `T::from_scalar` (= `splat`), then
    `multiply_3x3_and_vec3` on the decoded colour (as `RgbFam.rgbToXyz`) -/
def rgbToXyz (m : List K) (tf : Transfer.Fn) (c : V3 α) : V3 α := Gen.BodyV.matMulVec (m3OfK m) (rgbIntoLinear tf c)
/-- `Rgb<S> ← Xyz` (rgb/rgb.rs) (as `RgbFam.xyzToRgb`) -/
def xyzToRgb (m : List K) (tf : Transfer.Fn) (c : V3 α) : V3 α := rgbFromLinear tf (Gen.BodyV.matMulVec (m3OfK m) c)

/-- `Rgb<S1> ← Rgb<S2>` (as `RgbFam.rgbToRgb`; the `TypeId` tests compare *standards*, they do not depend on `T`) -/
def rgbToRgb (src dst : RgbFam.Std) (c : V3 α) : V3 α :=
  if src.name == dst.name then c
  else if src.space == dst.space then rgbFromLinear dst.tf (rgbIntoLinear src.tf c)
  else xyzToRgb dst.fromXyz dst.tf (rgbToXyz src.toXyz src.tf c)

/-- `Oklab ← Rgb<S>` / `Rgb<S> ← Oklab` (as `Ok.rgbToOklab` / `Ok.oklabToRgb`) -/
def rgbToOklab (sp : Color.RgbSpaceData) (tf : Transfer.Fn) (c : V3 α) : V3 α :=
  if sp.name == "Srgb" then Gen.BodyV.linSrgbToOklab (c.map (intoLinear tf))
  else Gen.BodyV.xyzToOklab (Gen.BodyV.matMulVec (m3OfK sp.rgbToXyz) (c.map (intoLinear tf)))
def oklabToRgb (sp : Color.RgbSpaceData) (tf : Transfer.Fn) (c : V3 α) : V3 α :=
  if sp.name == "Srgb" then (Gen.BodyV.oklabToLinSrgb c).map (fromLinear tf)
  else (Gen.BodyV.matMulVec (m3OfK sp.xyzToRgb) (Gen.BodyV.oklabToXyz c)).map (fromLinear tf)
end fused

/-- `Lms ← Xyz`, `Xyz ← Lms` (as `Cie.xyzToLms` / `Cie.lmsToXyz`) -/
def xyzToLms (toLms : List K) (c : V3 α) : V3 α := Gen.BodyV.matMulVec (m3OfK toLms) c
def lmsToXyz (toXyz : List K) (c : V3 α) : V3 α := Gen.BodyV.matMulVec (m3OfK toXyz) c

/-! ### Luma edges (luma/luma.rs, xyz.rs, yxy.rs, rgb/rgb.rs; as `RgbFam.luma*`; a luma is carried as `(luma, 0, 0)`) -/

/-- `Wp::get_xyz()` (as `Color.whitePoint`): three `T::from_f64` constants -/
def whitePoint (name : String) : V3 α :=
  match Gen.Mat.whitePoints.find? (·.1 == name) with
  | some (_, ks) => v3OfK ks
  | none => ⟨0.0, 0.0, 0.0⟩

def ofLuma (l : α) : V3 α := ⟨l, 0.0, 0.0⟩

section lumaFused
variable [VFused α]
def lumaToLuma (src dst : RgbFam.Std) (c : V3 α) : V3 α :=
  if src.name == dst.name then ofLuma c.c0
  else ofLuma (fromLinear dst.tf (intoLinear src.tf c.c0))
def xyzToLuma (dst : RgbFam.Std) (c : V3 α) : V3 α := ofLuma (fromLinear dst.tf c.c1)
def yxyToLuma (dst : RgbFam.Std) (c : V3 α) : V3 α := ofLuma (fromLinear dst.tf c.c2)
def lumaToXyz (src : RgbFam.Std) (c : V3 α) : V3 α :=
  let w : V3 α := whitePoint src.wp
  let l := intoLinear src.tf c.c0
  ⟨w.c0 * l, w.c1 * l, w.c2 * l⟩
def lumaToYxy (src : RgbFam.Std) (c : V3 α) : V3 α :=
  let d := Gen.BodyV.xyzToYxy (whitePoint src.wp : V3 α)
  ⟨d.c0, d.c1, intoLinear src.tf c.c0⟩
def lumaToRgb (src dst : RgbFam.Std) (c : V3 α) : V3 α :=
  if src.tf = dst.tf then ⟨c.c0, c.c0, c.c0⟩
  else
    let l := intoLinear src.tf c.c0
    rgbFromLinear dst.tf ⟨l, l, l⟩
end lumaFused

/-- `Hwb ← Rgb` is derived: `Hwb ← Hsv ← Rgb`, the first hop being the mask-generic branch for a SIMD component -/
def rgbToHwb (c : V3 α) : V3 α := Gen.BodyV.hsvToHwb (Gen.BodyV.rgbToHsvMask c)
/-- `Rgb ← Hwb`: `Rgb ← Hsv ← Hwb` -/
def hwbToRgb (c : V3 α) : V3 α := Gen.BodyV.hsvToRgb (Gen.BodyV.hwbToHsv c)

/-! ## operators (as `Ops.lean`; a colour is the list of its components) -/

def zero : α := 0.0
def one : α := 1.0

def addC : List α → List α → List α
  | x :: xs, y :: ys => (x + y) :: addC xs ys
  | _, _ => []
def subC : List α → List α → List α
  | x :: xs, y :: ys => (x - y) :: subC xs ys
  | _, _ => []
def mulC : List α → List α → List α
  | x :: xs, y :: ys => (x * y) :: mulC xs ys
  | _, _ => []
def divC : List α → List α → List α
  | x :: xs, y :: ys => (x / y) :: divC xs ys
  | _, _ => []
def addS (a : List α) (c : α) : List α := a.map (· + c)
def subS (a : List α) (c : α) : List α := a.map (· - c)
def mulS (a : List α) (c : α) : List α := a.map (· * c)
def divS (a : List α) (c : α) : List α := a.map (· / c)

/-- `impl_mix!::mix`; `cl` = `Clamp::clamp` of the component type -/
def mixLin (cl : α → α → α → α) (a b : List α) (factor : α) : List α :=
  let factor := cl factor zero one
  addC a (mulS (subC b a) factor)

/-- `(other.hue - self.hue).into_degrees()` / `other.f - self.f` -/
def diffC : Ops.Role → α → α → α
  | .lin, a, b => b - a
  | .hue, a, b => Gen.BodyV.angleNormalizeSigned (b - a)

def diffs : List Ops.Role → List α → List α → List α
  | r :: rs, x :: xs, y :: ys => diffC r x y :: diffs rs xs ys
  | _, _, _ => []

/-- `impl_mix_hue!::mix` -/
def mixHue (cl : α → α → α → α) (roles : List Ops.Role) (a b : List α) (factor : α) : List α :=
  let factor := cl factor zero one
  let d := diffs roles a b
  List.zipWith (fun x dx => x + dx * factor) a d

/-- `lazy_select!{ if factor.gt_eq(&T::zero()) => $get_max - &self.$component, else => self.$component.clone() }`, then
    `difference.max(T::zero()) * &factor` -/
def incDelta (hi c f : α) : α :=
  let difference := lazySelect (VScalar.ge f zero) (hi - c) c
  VScalar.max difference zero * f

def incBuild (cl : α → α → α → α) : List (Ops.Inc α) → List α → List α → List α
  | .increase lo hi :: ss, x :: xs, d :: ds => cl (x + d) lo hi :: incBuild cl ss xs ds
  | .other :: ss, x :: xs, _ :: ds => x :: incBuild cl ss xs ds
  | _, xs, _ => xs

def incDeltas : List (Ops.Inc α) → List α → α → List α
  | .increase _ hi :: ss, x :: xs, f => incDelta hi x f :: incDeltas ss xs f
  | .other :: ss, x :: xs, f => x :: incDeltas ss xs f
  | _, _, _ => []

/-- `Lighten::lighten` / `Saturate::saturate` (relative form, by value) -/
def incValue (cl : α → α → α → α) (spec : List (Ops.Inc α)) (c : List α) (f : α) : List α :=
  incBuild cl spec c (incDeltas spec c f)

/-- `lighten_fixed` / `saturate_fixed` on one `increase` component -/
def incFixedC (cl : α → α → α → α) (lo hi x amount : α) : α := cl (x + hi * amount) lo hi

/-- `Darken::darken` = `lighten(-factor)` -/
def decValue (cl : α → α → α → α) (spec : List (Ops.Inc α)) (c : List α) (f : α) : List α := incValue cl spec c (-f)

/-- `impl_lighten_hwb!::lighten` -/
def hwbLighten (l : Ops.HwbLim α) (w b f : α) : α × α :=
  let differenceWhiteness := lazySelect (VScalar.ge f zero) (l.maxW - w) w
  let deltaWhiteness := VScalar.max differenceWhiteness zero * f
  let differenceBlackness := lazySelect (VScalar.ge f zero) b (l.maxB - b)
  let deltaBlackness := VScalar.max differenceBlackness zero * f
  (VScalar.max (w + deltaWhiteness) l.minW, VScalar.max (b - deltaBlackness) l.minB)

/-- `shift_hue` -/
def shiftHue (h : Nat) (c : List α) (amount : α) : List α := c.modify h (· + amount)

/-! ## blending and compositing (as `Blend.lean`) -/

def modeFn : Blend.Mode → α → α → α
  | .multiply => Gen.BodyV.multiplyBlend | .screen => Gen.BodyV.screenBlend | .overlay => Gen.BodyV.overlayBlend
  | .darken => Gen.BodyV.darkenBlend | .lighten => Gen.BodyV.lightenBlend | .dodge => Gen.BodyV.dodgeBlend
  | .burn => Gen.BodyV.burnBlend | .hardLight => Gen.BodyV.hardLightBlend | .softLight => Gen.BodyV.softLightBlend
  | .difference => Gen.BodyV.differenceBlend | .exclusion => Gen.BodyV.exclusionBlend

/-- `blend_alpha` -/
def blendAlpha (cl : α → α → α → α) (src dst : α) : α := cl (src + dst - src * dst) 0.0 1.0

def premultiply (c : List α) (a : α) : List α × α := (c.map (fun x => x * a), a)

/-- one component of `unpremultiply`: `lazy_select!{ if alpha.is_valid_divisor() => c / alpha, else => 0 }`, the mask computed once -/
def unpremulC (valid : μ) (a x : α) : α := lazySelect valid (x / a) 0.0

def unpremultiply (p : List α × α) : List α × α :=
  let valid := VScalar.isValidDivisor p.2
  (p.1.map (unpremulC valid p.2), p.2)

def newOpaque (c : List α) : List α × α := (c, 1.0)

structure BlendInput (α : Type) where
  color : List α
  colorPre : List α
  alpha : α

def BlendInput.newOpaque (c : List α) : BlendInput α := ⟨c, c, 1.0⟩
def BlendInput.ofAlpha (c : List α × α) : BlendInput α :=
  let pre := premultiply c.1 c.2
  ⟨c.1, pre.1, pre.2⟩
def BlendInput.ofPre (p : List α × α) : BlendInput α :=
  let u := unpremultiply p
  ⟨u.1, p.1, u.2⟩

def blendComp (f : α → α → α) (srcA dstA src srcPre dst dstPre : α) : α :=
  srcPre * (1.0 - dstA) + f src dst * srcA * dstA + (1.0 - srcA) * dstPre

def blendList (f : α → α → α) (srcA dstA : α) : List α → List α → List α → List α → List α
  | s :: ss, sp :: sps, d :: ds, dp :: dps => blendComp f srcA dstA s sp d dp :: blendList f srcA dstA ss sps ds dps
  | _, _, _, _ => []

def blendSeparable (cl : α → α → α → α) (f : α → α → α) (src dst : BlendInput α) : List α × α :=
  (blendList f src.alpha dst.alpha src.color src.colorPre dst.color dst.colorPre, blendAlpha cl src.alpha dst.alpha)

def blendPre (cl : α → α → α → α) (f : α → α → α) (s d : List α × α) : List α × α :=
  blendSeparable cl f (BlendInput.ofPre s) (BlendInput.ofPre d)
def blendOpaque (cl : α → α → α → α) (f : α → α → α) (s d : List α) : List α :=
  (unpremultiply (blendSeparable cl f (BlendInput.newOpaque s) (BlendInput.newOpaque d))).1
def blendStraight (cl : α → α → α → α) (f : α → α → α) (s d : List α × α) : List α × α :=
  unpremultiply (blendSeparable cl f (BlendInput.ofAlpha s) (BlendInput.ofAlpha d))

def opComp : Blend.Op → (srcA dstA src dst : α) → α
  | .over, srcA, _, src, dst => src + (1.0 - srcA) * dst
  | .inside, _, dstA, src, _ => src * dstA
  | .outside, _, dstA, src, _ => src * (1.0 - dstA)
  | .atop, srcA, dstA, src, dst => src * dstA + (1.0 - srcA) * dst
  | .xor, srcA, dstA, src, dst => src * (1.0 - dstA) + (1.0 - srcA) * dst
  | .plus, _, _, src, dst => src + dst

def opAlpha (cl : α → α → α → α) : Blend.Op → (srcA dstA : α) → α
  | .over, s, d => blendAlpha cl s d
  | .inside, s, d => cl (s * d) 0.0 1.0
  | .outside, s, d => cl (s * (1.0 - d)) 0.0 1.0
  | .atop, _, d => cl d 0.0 1.0
  | .xor, s, d => cl (s * (1.0 - d) + (1.0 - s) * d) 0.0 1.0
  | .plus, s, d => cl (s + d) 0.0 1.0

def composeList (op : Blend.Op) (srcA dstA : α) : List α → List α → List α
  | s :: ss, d :: ds => opComp op srcA dstA s d :: composeList op srcA dstA ss ds
  | _, _ => []

def composePre (cl : α → α → α → α) (op : Blend.Op) (s d : List α × α) : List α × α :=
  (composeList op s.2 d.2 s.1 d.1, opAlpha cl op s.2 d.2)

def composeStraight (cl : α → α → α → α) (op : Blend.Op) (s d : List α × α) : List α × α :=
  unpremultiply (composePre cl op (premultiply s.1 s.2) (premultiply d.1 d.2))
def composeOpaque (cl : α → α → α → α) (op : Blend.Op) (s d : List α) : List α :=
  (unpremultiply (composePre cl op (newOpaque s) (newOpaque d))).1

end SimdOps
