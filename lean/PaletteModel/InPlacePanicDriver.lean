import PaletteModel.Proto
import PaletteModel.InPlaceDriver
import PaletteModel.InPlacePanic

/-
  `phist <f32|f64> <K> <single|slice|vec|box> <u0> <n> <cap> | <step>* ; <init values> ; <written values> | ( ; <obs> )*`

  The `hist` line of `InPlaceDriver.lean` for histories in which a colour conversion (or the user's code) panics and the panic is
  caught outside all guards (`harness/src/c13_panic.rs`: colour types whose conversion panics at a chosen element).
  steps: the `hist` operation tokens; with the suffix `!<k>` the `k`-th element conversion inside the operation panics
         (`fcm:c:1:0!2`, `then:u:2!0`, `restore!1`, `drop!0`, `own:c:1:2!3`); `upanic` = a panic in the user's code.
  obs (one per step, taken after it — after a panic: after the unwinding, through the owner): as for `hist`, or the single token
        `leaked` after a by-value conversion that panicked (the owner is gone, nothing is left to observe here; what was dropped
        is the subject of the `pown` lines).
  The handler replays the history through `InPlace.stepP` and requires what `hist` requires after every step.

  `pown <vec|box> <via> <n> <k|-> | | <d_0 … d_{n-1}> ; <e_0 … e_{n-1}>`
  A `Vec` / boxed slice of `n` colours whose components have a counting destructor, converted by value in place
  (`cast::map_vec_in_place` with a closure, `Vec::from_color`, …) with the conversion panicking at call `k` (`-`: never):
  `d_j` = how often the value of slot `j` had been dropped when the call returned or its panic was caught, `e_j` = the same after
  the result (if there is one) was dropped too.  Compared with `InPlace.ownedPanic`.
-/
namespace InPlace
open Proto

def formTag : Form → String
  | .single => "single" | .slice => "slice" | .vec => "vec" | .boxed => "box"

def pstep? (tok : String) : Option PStep :=
  if tok == "upanic" then some .userPanic else
  match tok.splitOn "!" with
  | [o] => (op? o).map .op
  | [o, k] => do some (.panicIn (← op? o) (← k.toNat?))
  | _ => none

def pstepTag : PStep → State → String
  | .op o, _ => opTag o
  | .userPanic, s => s!"user_panic:guards={min s.guards.length 3}"
  | .panicIn o k, s => s!"panic_in:{opTag o}:{if s.guards.length ≥ (match o with | .fromColorMut _ _ => 1 | _ => 2) then "outer_guard_alive" else "no_other_guard"}:{if k == 0 then "first" else "later"}"

def handlePanic (cfg inp outp : List String) : Verdict :=
  match cfg with
  | [fl, k, form, u0, n, cap] =>
    match form? form, u0.toNat?, n.toNat?, cap.toNat?, k.toNat? with
    | some form, some u0, some n, some cap, some k =>
      if fl != "f32" && fl != "f64" then .bad "component type" else
      match splitSemi inp, splitSemi outp with
      | [opToks, initToks, _written], _ :: obss =>
        if initToks.length != n * k then .bad "initial values" else
        match opToks.mapM pstep? with
        | none => .bad "unparsable step"
        | some steps =>
          if steps.length != obss.length then .bad s!"{steps.length} steps but {obss.length} observations" else
          let s0 := fresh form u0 0 cap n
          let rec go (idx : Nat) (s : State) (tags : List String) : List PStep → List (List String) → Except String (List String)
            | [], _ => .ok tags
            | p :: ps, obs :: obss =>
              match stepP p s with
              | none => .error s!"step {idx} ({pstepTag p s}) is not possible in the model state (no such conversion to panic in / not expressible)"
              | some (.leaked _) =>
                if obs == ["leaked"] && ps.isEmpty then .ok (pstepTag p s :: tags)
                else .error s!"after step {idx}: the model says the owner is leaked and the history ends, the implementation reports {obs}"
              | some (.state s') =>
                match diffObs 0 s' obs with
                | some msg => .error s!"after step {idx} ({pstepTag p s}): {msg}"
                | none => go (idx + 1) s' (pstepTag p s :: tags) ps obss
            | _, [] => .error "observations ran out"
          match go 0 s0 [] steps obss with
          | .error msg => .disagree msg
          | .ok tags => .agree ((s!"form:{formTag form}" :: tags).eraseDups)
      | _, _ => .bad "malformed phist line (sections)"
    | _, _, _, _, _ => .bad "malformed phist config"
  | _ => .bad "malformed phist line"

def handleOwnedPanic (cfg outp : List String) : Verdict :=
  match cfg with
  | [form, _via, n, k] =>
    match form? form, n.toNat? with
    | some form, some n =>
      if form != .vec && form != .boxed then .bad "pown form" else
      let kk : Nat := (k.toNat?).getD n          -- `-`: never (any index ≥ n)
      match splitSemi outp with
      | [d, e] =>
        match d.mapM String.toNat?, e.mapM String.toNat? with
        | some d, some e =>
          let b := (fresh form 0 0 n n).buf
          let slotsOf (dropped : List Term) : List Nat := (List.range n).map fun j => dropped.count (Term.src j)
          match ownedPanic true 0 1 b kk with
          | .panicked l =>
            -- caught panic: only the value moved into the conversion has been dropped; nothing is returned, so nothing more is dropped
            if d == slotsOf l.dropped && e == slotsOf l.dropped && !l.freed then .agree [s!"panicked:{if kk == 0 then "first" else if kk + 1 == n then "last" else "middle"}", s!"form:{formTag form}"]
            else .disagree s!"drop counts: model {slotsOf l.dropped} (leaked), implementation {d} then {e}"
          | .finished elems =>
            -- no panic: nothing dropped by the conversion; the result owns each value once
            if elems.length == n && d == List.replicate n 0 && e == List.replicate n 1 then .agree ["finished", s!"form:{formTag form}"]
            else .disagree s!"drop counts without panic: expected all 0 then all 1, implementation {d} then {e}"
        | _, _ => .bad "pown counts"
      | _ => .bad "malformed pown line (sections)"
    | _, _ => .bad "malformed pown config"
  | _ => .bad "malformed pown line"

end InPlace
