/-
  C20 — *driving* the translated deserializing methods of `palette/src/serde/alpha_deserializer.rs` (Gen/BodiesSerde.lean).

  The translated bodies are generic over serde's traits (dictionary passing): to run `Alpha::deserialize` end to end two things that are NOT
  palette code have to be supplied.  Both are written here as small executable definitions; nothing here restates a palette method.

  (i)  the accesses a self-describing format hands to a visitor, over the generic tree `Serde.GTree` of `PaletteModel/Serde.lean`:
       `MapAcc` (the serde `MapAccess` contract: `next_key_seed` yields the next key - shown to the seed through `deserialize_identifier`, i.e. one of
       `visit_str` / `visit_u64`, `Serde.Proto.keyIdentifier` - or `None` at the end and remembers the value; `next_value_seed` hands the remembered value
       to the seed), `seqNext` (`SeqAccess::next_element_seed`) and `fmtDeserializeStruct` (`deserialize_struct`: a map goes to `visit_map`, a sequence to
       `visit_seq` if the format accepts that (`Fmt.structFromSeq`), anything else is `invalid_type`);
  (ii) what `#[derive(Deserialize)]` generates for a colour struct with descriptor `d : Desc`, generic over the access it is given (`MapOps` / `SeqOps`):
       `derivedFieldVisitor` (`__FieldVisitor`: `visit_u64` by position, `visit_str` / `visit_bytes` by name, everything else `__ignore`),
       `derivedVisitMap` (`while let Some(key) = map.next_key()? { match key { field_i => duplicate check, next_value; _ => IgnoredAny } }`, then
       `missing_field` for the first empty slot) and `derivedVisitSeq` (one `next_element` per field, `invalid_length(i)`).
       `PaletteProofs/C20_SerdeCompose.lean` proves these over the format's accesses equal to `Serde.deColor` (`colorDeserialize_is_deColor`).

  `wrapperOps` is `MapWrapper` as a `MapAccess` (every method is the translated one), `alphaFieldSeed` the `AlphaFieldDeserializerSeed` as a seed (translated
  `deserialize`, translated `AlphaFieldVisitor`), `seedOnSfd` a seed handed the `StructFieldDeserializer` (translated `deserialize_identifier`),
  `colorDeserializeAlpha` = `C::deserialize(AlphaDeserializer { .. })` (translated `deserialize_struct`, `AlphaMapVisitor::visit_map` / `visit_seq`), and
  `alphaDeserialize` / `preAlphaDeserialize` / `optionalAlpha` / `optionalPreAlpha` the four translated entry points on top.
  C20_SerdeCompose proves them equal to `Serde.deAlphaRaw` / `deAlpha` / `deAlphaOpt`, with the fuel of both loops discharged.

  Readings: a `DeserializeSeed` for an identifier is given by its answers to `visit_u64` / `visit_str` / `visit_bytes` (`IdSeed`; the three ways an identifier
  deserializer can call back - exactly the variants of `Prim.StructField`); a seed for a value by its result on the generic value (`GVal α → ..`, the
  format's reading of newtype structs is `Serde.decodeField`'s).  Errors: `DErr` = the model's `Serde.Err` plus the two outcomes that only the driving
  can have (`protocol`: `next_value` without a pending value; `fuel`: a `loop` not finished within its bound) - the theorems show neither occurs.
  No Mathlib.
-/
import PaletteModel.SerdeProto
import PaletteModel.Gen.BodiesSerde

namespace Serde.Drive
open Prim Serde.Proto

variable {α β κ υ ρ M Q : Type}

/-- outcomes of a driven deserialization -/
inductive DErr where
  | de (e : Serde.Err)
  /-- `MapAccess` contract broken: `next_value_seed` without a preceding successful `next_key_seed` -/
  | protocol
  /-- a `loop` / `while let` did not finish within its bound (`Prim.loopFuel` returned `none`) -/
  | fuel
  deriving DecidableEq, Repr

/-- an outcome of the tree-level model as an outcome of the driving -/
def lift : Res β → Except DErr β
  | .ok x => .ok x
  | .error e => .error (.de e)

def errDuplicate (name : String) : DErr := .de (.duplicateField name)     -- `serde::de::Error::duplicate_field`
def errMissing (name : String) : DErr := .de (.missingField name)         -- `serde::de::Error::missing_field`
def errInvalidType (_ : Unexpected) (_ : String) : DErr := .de .invalidType -- `serde::de::Error::invalid_type`

/-! ## (i) the accesses of a self-describing format -/

/-- a `DeserializeSeed` whose `deserialize` asks for an identifier: its answer to `visit_u64(n)` / `visit_str(s)` / `visit_bytes(b)` -/
abbrev IdSeed (κ : Type) := StructField → Except DErr κ

/-- a format shows a key to a seed through `deserialize_identifier`: a name by `visit_str`, a position by `visit_u64` -/
def presentKey (seed : IdSeed κ) (k : Key) : Except DErr κ :=
  keyIdentifier (fun (s : IdSeed κ) n => s (.unsigned n)) (fun (s : IdSeed κ) x => s (.str x)) k seed

/-- map access over the entries not yet read; `pending` = the value of the key handed out last -/
structure MapAcc (α : Type) where
  rest : List (Key × GVal α)
  pending : Option (GVal α)
  deriving Repr

/-- `MapAccess::next_key_seed`: "returns `Ok(None)` if there are no more remaining entries" -/
def MapAcc.nextKeySeed (m : MapAcc α) (seed : IdSeed κ) : Except DErr (Option κ × MapAcc α) :=
  match m.rest with
  | [] => .ok (none, m)
  | (k, v) :: rest => Prim.tryE (presentKey seed k) fun r => .ok (some r, ⟨rest, some v⟩)

/-- `MapAccess::next_value_seed`: the value of the key read last ("calling `next_value_seed` before `next_key_seed` is incorrect") -/
def MapAcc.nextValueSeed (m : MapAcc α) (seed : GVal α → Except DErr υ) : Except DErr (υ × MapAcc α) :=
  match m.pending with
  | none => .error .protocol
  | some v => Prim.tryE (seed v) fun r => .ok (r, ⟨m.rest, none⟩)

/-- the operations of a `MapAccess` (a dictionary; both methods are generic in the seed's value type) -/
structure MapOps (M α : Type) : Type 1 where
  nextKeySeed : {κ : Type} → M → IdSeed κ → Except DErr (Option κ × M)
  nextValueSeed : {υ : Type} → M → (GVal α → Except DErr υ) → Except DErr (υ × M)

def fmtMapOps : MapOps (MapAcc α) α := ⟨MapAcc.nextKeySeed, MapAcc.nextValueSeed⟩

/-- the operation of a `SeqAccess` -/
structure SeqOps (Q α : Type) : Type 1 where
  nextElementSeed : {υ : Type} → Q → (GVal α → Except DErr υ) → Except DErr (Option υ × Q)

/-- `SeqAccess::next_element_seed` over the elements not yet read -/
def seqNext (q : List (GVal α)) (seed : GVal α → Except DErr υ) : Except DErr (Option υ × List (GVal α)) :=
  match q with
  | [] => .ok (none, [])
  | v :: vs => Prim.tryE (seed v) fun r => .ok (some r, vs)

def fmtSeqOps : SeqOps (List (GVal α)) α := ⟨seqNext⟩

/-- `Deserializer::deserialize_struct(name, fields, visitor)` of a self-describing format (`name` / `fields` are hints these formats ignore): the visitor
    is given by its `visit_map` / `visit_seq` (access passed by value, as in the translated visitors) -/
def fmtDeserializeStruct (f : Fmt) (visitMap : MapAcc α → Except DErr ρ) (visitSeq : List (GVal α) → Except DErr ρ) : GTree α → Except DErr ρ
  | .map es => visitMap ⟨es, none⟩
  | .seq xs => if f.structFromSeq then visitSeq xs else .error (.de .invalidType)
  | .val _ => .error (.de .invalidType)

/-- the format's check after `visit_seq` returned (`end_seq`): elements the visitor did not read -/
def endSeq (unread : List (GVal α)) : Except DErr Unit :=
  match unread with
  | [] => .ok ()
  | _ :: _ => .error (.de .trailing)

/-- the format's check after `visit_map` returned (`end_map`) -/
def endMap (m : MapAcc α) : Except DErr Unit :=
  match m.rest with
  | [] => .ok ()
  | _ :: _ => .error (.de .trailing)

/-! ## (ii) `#[derive(Deserialize)]` of a colour struct -/

/-- derived `__FieldVisitor` (`__Field` = `some i` for `__field{i}`, `none` for `__ignore`) -/
def derivedFieldVisitor (names : List String) : IdSeed (Option Nat)
  | .unsigned n => .ok (if n < names.length then some n else none)
  | .str s => .ok (let i := names.idxOf s; if i < names.length then some i else none)
  | .bytes b => .ok (let i := (names.map Prim.bstr).idxOf b; if i < names.length then some i else none)

/-- one turn of the derived `visit_map`'s `while let Some(key) = map.next_key::<__Field>()?` -/
def derivedMapTurn (ops : MapOps M α) (tr : Bool) (f : Fmt) (d : Desc) (st : List (Option α) × M) :
    Except DErr (Flow (List (Option α) × M) (List (Option α) × M)) :=
  Prim.tryE (ops.nextKeySeed st.2 (derivedFieldVisitor d.names)) fun r =>
    match r.1 with
    | none => .ok (.done (st.1, r.2))
    | some none =>                                            -- `_ => { let _ = map.next_value::<IgnoredAny>()?; }`
      Prim.tryE (ops.nextValueSeed r.2 (fun _ => .ok ())) fun v => .ok (.next (st.1, v.2))
    | some (some i) =>
      match d.fields[i]? with
      | none => Prim.tryE (ops.nextValueSeed r.2 (fun _ => .ok ())) fun v => .ok (.next (st.1, v.2))
      | some fd =>
        if (getSlot st.1 i).isSome then .error (errDuplicate fd.name)
        else Prim.tryE (ops.nextValueSeed r.2 (fun v => lift (decodeField tr f fd v))) fun v => .ok (.next (st.1.set i (some v.1), v.2))

/-- derived `visit_map`: the loop, then every slot must be filled (`missing_field`, first one in declaration order) -/
def derivedVisitMap (ops : MapOps M α) (fuel : Nat) (tr : Bool) (f : Fmt) (d : Desc) (m : M) : Except DErr (List α × M) :=
  match Prim.loopFuel fuel (derivedMapTurn ops tr f d) (d.fields.map fun _ => none, m) with
  | none => .error .fuel
  | some (.error e) => .error e
  | some (.ok (slots, m')) => Prim.tryE (lift (collect d.fields slots)) fun c => .ok (c, m')

/-- derived `visit_seq`: `match seq.next_element()? { Some(v) => v, None => return Err(invalid_length(i, ..)) }` per field -/
def derivedSeqFields (ops : SeqOps Q α) (tr : Bool) (f : Fmt) : List Field → Nat → Q → Except DErr (List α × Q)
  | [], _, q => .ok ([], q)
  | fd :: fds, i, q =>
    Prim.tryE (ops.nextElementSeed q (fun v => lift (decodeField tr f fd v))) fun r =>
      match r.1 with
      | none => .error (.de (.invalidLength i))
      | some x => Prim.tryE (derivedSeqFields ops tr f fds (i + 1) r.2) fun rr => .ok (x :: rr.1, rr.2)

def derivedVisitSeq (ops : SeqOps Q α) (tr : Bool) (f : Fmt) (d : Desc) (q : Q) : Except DErr (List α × Q) :=
  derivedSeqFields ops tr f d.fields 0 q

/-- the derived visitor has no `visit_unit`: serde's default is `invalid_type(Unexpected::Unit, &self)` -/
def derivedVisitUnit : Except DErr (List α) := .error (.de .invalidType)

/-- `C::deserialize(format)` for a colour struct on its own: `deserialize_struct(name, FIELDS, __Visitor)`, then the format's end check -/
def colorDeserialize (fuel : Nat) (tr : Bool) (f : Fmt) (d : Desc) (t : GTree α) : Except DErr (List α) :=
  fmtDeserializeStruct f
    (fun m => Prim.tryE (derivedVisitMap fmtMapOps fuel tr f d m) fun r => Prim.tryE (endMap r.2) fun _ => .ok r.1)
    (fun q => Prim.tryE (derivedVisitSeq fmtSeqOps tr f d q) fun r => Prim.tryE (endSeq r.2) fun _ => .ok r.1)
    t

/-! ## the translated wrappers, wired to (i) and (ii) -/

/-- a seed handed the `StructFieldDeserializer`: it calls `deserialize_identifier` (translated), which replays the identifier to the seed's visitor -/
def seedOnSfd (seed : IdSeed κ) (d : StructFieldDeserializer) : Except DErr κ :=
  Gen.BodySerde.sfdDeserializeIdentifier (fun (s : IdSeed κ) n => s (.unsigned n)) (fun (s : IdSeed κ) x => s (.str x))
    (fun (s : IdSeed κ) b => s (.bytes b)) d seed

/-- `AlphaFieldDeserializerSeed { inner, field_count }` as a seed: `deserialize` (translated) asks for an identifier with the `AlphaFieldVisitor`
    (translated `visit_u64` / `visit_str` / `visit_bytes`) -/
def alphaFieldSeed (s : AlphaFieldDeserializerSeed (IdSeed κ)) : IdSeed (AlphaField (IdSeed κ) κ) := fun sf =>
  Gen.BodySerde.seedDeserialize
    (fun (sf : StructField) (v : AlphaFieldVisitor (IdSeed κ)) =>
      match sf with
      | .unsigned n => Gen.BodySerde.fieldVisitorVisitU64 seedOnSfd errInvalidType v n
      | .str x => Gen.BodySerde.fieldVisitorVisitStr seedOnSfd errInvalidType v x
      | .bytes b => Gen.BodySerde.fieldVisitorVisitBytes seedOnSfd errInvalidType v b)
    s sf

/-- `A::deserialize` of the alpha component -/
def alphaValue (v : GVal α) : Except DErr α := lift (decodeNum v)

/-- `MapWrapper { inner, alpha, field_count }` as a `MapAccess` around the access `ops`: translated `next_key_seed` (its `loop` with `fuel` turns) and
    `next_value_seed` -/
def wrapperOps (fuel : Nat) (ops : MapOps M α) : MapOps (MapWrapper M α) α where
  nextKeySeed w seed :=
    match Gen.BodySerde.mapWrapperNextKeySeed (fun m s => ops.nextKeySeed m (alphaFieldSeed s)) (fun m => ops.nextValueSeed m alphaValue) errDuplicate fuel w seed with
    | none => .error .fuel
    | some r => r
  nextValueSeed w seed := Gen.BodySerde.mapWrapperNextValueSeed (fun m (s : GVal α → Except DErr _) => ops.nextValueSeed m s) w seed

/-- `C::deserialize(AlphaDeserializer { inner: <format over t>, alpha })` for a colour struct `d`: translated `deserialize_struct` installs the
    `AlphaMapVisitor` (translated `visit_map` over the `MapWrapper`, translated `visit_seq`) around the derived visitor; returns the colour and the cell.
    `fuelO` bounds the derived `while let`, `fuelI` the `loop` of `MapWrapper::next_key_seed`. -/
def colorDeserializeAlpha (fuelO fuelI : Nat) (tr : Bool) (f : Fmt) (d : Desc) (ad : AlphaDeserializer (GTree α) α) : Except DErr (List α × Option α) :=
  Gen.BodySerde.deDeserializeStruct
    (fun (t : GTree α) (_name : String) (_fields : List String) (v : AlphaMapVisitor Desc α) =>
      fmtDeserializeStruct f
        (Gen.BodySerde.mapVisitorVisitMap
          (fun (w : Desc) (mw : MapWrapper (MapAcc α) α) => derivedVisitMap (wrapperOps fuelI fmtMapOps) fuelO tr f w mw) v)
        (Gen.BodySerde.mapVisitorVisitSeq (fun (_ : Desc) => derivedVisitUnit)
          (fun (w : Desc) (q : List (GVal α)) => derivedVisitSeq fmtSeqOps tr f w q) (fun q => seqNext q alphaValue) v)
        t)
    ad d.name d.names d

/-- `Deserializer::deserialize_seq(visitor)` of the format -/
def fmtDeserializeSeq (visitSeq : List (GVal α) → Except DErr ρ) : GTree α → Except DErr ρ
  | .seq xs => visitSeq xs
  | _ => .error (.de .invalidType)

/-- the other visitor of the file: a type whose `Deserialize` asks for a plain sequence (`deserialize_seq`; none of the derived colour structs does) reaches
    the translated `AlphaSeqVisitor::visit_seq` through the translated `AlphaDeserializer::deserialize_seq`; here with the colour's `visit_seq` as the
    wrapped visitor -/
def seqDeserializeAlpha (tr : Bool) (f : Fmt) (d : Desc) (ad : AlphaDeserializer (GTree α) α) : Except DErr (List α × Option α) :=
  Gen.BodySerde.deDeserializeSeq
    (fun (t : GTree α) (v : AlphaSeqVisitor Desc α) =>
      fmtDeserializeSeq
        (Gen.BodySerde.seqVisitorVisitSeq (fun (w : Desc) (q : List (GVal α)) => derivedVisitSeq fmtSeqOps tr f w q) (fun q => seqNext q alphaValue) v) t)
    ad d

/-- `Alpha::<C, T>::deserialize(format over t)` (translated) -/
def alphaDeserialize (fuelO fuelI : Nat) (tr : Bool) (f : Fmt) (d : Desc) (t : GTree α) : Except DErr (AlphaOf (List α) α) :=
  Gen.BodySerde.alphaDeserialize (colorDeserializeAlpha fuelO fuelI tr f d) errMissing t

/-- `PreAlpha::<C>::deserialize(format over t)` (translated) -/
def preAlphaDeserialize (fuelO fuelI : Nat) (tr : Bool) (f : Fmt) (d : Desc) (t : GTree α) : Except DErr (PreAlphaOf (List α) α) :=
  Gen.BodySerde.preAlphaDeserialize (colorDeserializeAlpha fuelO fuelI tr f d) errMissing t

/-- `deserialize_with_optional_alpha(format over t)` (translated) -/
def optionalAlpha (fuelO fuelI : Nat) (tr : Bool) (f : Fmt) (d : Desc) (maxI minI : α) (t : GTree α) : Except DErr (AlphaOf (List α) α) :=
  Gen.BodySerde.deserializeWithOptionalAlpha (colorDeserializeAlpha fuelO fuelI tr f d) maxI minI t

/-- `deserialize_with_optional_pre_alpha(format over t)` (translated) -/
def optionalPreAlpha (fuelO fuelI : Nat) (tr : Bool) (f : Fmt) (d : Desc) (maxI minI : α) (t : GTree α) : Except DErr (PreAlphaOf (List α) α) :=
  Gen.BodySerde.deserializeWithOptionalPreAlpha (colorDeserializeAlpha fuelO fuelI tr f d) maxI minI t

/-- the bound both loops need: one turn per entry and one for the end -/
def turns : GTree α → Nat
  | .map es => es.length + 1
  | _ => 1

end Serde.Drive
