/-
  Hand-written prelude of `PaletteModel/Gen/BodiesMatrix.lean` (family `matrix` of the source-text tie, translator
  `tools/rust2lean_matrix.py`): readings of the std / language constructs and of the non-colour structs that the matrix
  code of palette uses.  Everything is a plain structural definition that `rfl` / `cases` sees through.

  No Mathlib import (the driver links `PaletteModel`).
-/
import PaletteModel.BodyPrim
import PaletteModel.BodyPrimGlue

namespace Prim

/-- `Matrix3<I, O>` (convert/matrix3.rs: `pub struct Matrix3<I, O> { matrix: Mat3<..>, transform: PhantomData<fn(I) -> O> }`): the
    array; the `PhantomData` field is dropped, the field list is re-read from the `struct` on every run -/
structure Matrix3 (σ : Type) where
  matrix : M3 σ

/-- `ConeResponseMatrices<T>` (chromatic_adaptation.rs: `pub struct ConeResponseMatrices<T> { pub ma: Mat3<T>, pub inv_ma: Mat3<T> }`) -/
structure ConeResponse (α : Type) where
  ma : M3 α
  invMa : M3 α

/-- `enum Method { Bradford, VonKries, XyzScaling }` (chromatic_adaptation.rs; the variant list is re-read on every run) -/
inductive Method where
  | bradford | vonKries | xyzScaling
deriving DecidableEq, Repr

/-- `<[T; 9]>::len()`: the Rust reference defines the length of an array type `[T; N]` as the constant `N`; `Mat3<T> = [T; 9]` is
    pinned in the translator -/
def m3Len {σ : Type} (_ : M3 σ) : Nat := 9

end Prim
