/-
  Hand-written prelude of `PaletteModel/Gen/BodiesLuvBounds.lean` (family `luvb`: palette/src/luv_bounds.rs and the two HSLuv edges
  that call it, translated by `tools/rust2lean_luvb.py`).  Readings of the std / language constructs that file uses beyond
  straight-line float arithmetic; each is a plain definition that `rfl` / `unfold` sees through.

  `luv_bounds.rs` computes in `f64` whatever the component type `T` is; the translation keeps the two types apart: `α` = `T`,
  `β` = `f64` (`class ViaF64 α β` of Color/Cie.lean: `up` = `Into<f64>::into`, `down` = `T::from_f64` / `Real::from_f64`).

  No Mathlib import (the driver links `PaletteModel`).
-/
import PaletteModel.Color.Cie

namespace Prim.LuvB

/-- `pub(crate) struct LuvBounds { bounds: [BoundaryLine; 6] }` (field list re-read from the `struct` on every run).  A fixed-size
    array whose elements are only ever produced by an array literal and consumed by `for x in &a` is the list of its elements
    (Rust reference, "Array types": `[T; N]` is a sequence of `N` values of `T`; the translator checks the literal has `N` items). -/
structure LuvBounds (β : Type) where
  bounds : List (Cie.BoundaryLine β)

/-- `f64::MAX`: std documents it as the largest finite `f64`, `1.7976931348623157E+308f64` -/
def f64Max {β : Type} [Scalar β] : β := 1.7976931348623157e308

/-- `m[c]` on a `[[f64; 3]; 3]` (read as the row-major `M3`), `c: usize`: Rust reference, "Array and slice indexing expressions" -
    the `c`-th element, panic when `c ≥ 3`.  The translator only accepts index operands that are integer literals `< 3` at every
    use (a `usize` closure parameter must receive such a literal at every call), so the last arm is never the out-of-range case. -/
def row {β : Type} (m : M3 β) : Nat → V3 β
  | 0 => ⟨m.m0, m.m1, m.m2⟩
  | 1 => ⟨m.m3, m.m4, m.m5⟩
  | _ => ⟨m.m6, m.m7, m.m8⟩

/-- `m[i]` on a `[f64; 3]` / `&[f64; 3]` (read as `V3`), `i` an integer literal `< 3` (checked by the translator) -/
def at3 {β : Type} (v : V3 β) : Nat → β
  | 0 => v.c0
  | 1 => v.c1
  | _ => v.c2

/-- `for x in &xs { <body assigning the outer `let mut` variables s> }`: Rust reference, "Iterator loops" - the body runs once per
    element, in order; the loop's only effect is the final value of the assigned variables, so it is the left fold of the body read
    as the state transformer `x ↦ s ↦ s'` (no `break` / `continue` / `return` inside: the translator rejects them). -/
def forIn {σ ε : Type} (xs : List ε) (init : σ) (body : ε → σ → σ) : σ :=
  xs.foldl (fun s x => body x s) init

end Prim.LuvB
