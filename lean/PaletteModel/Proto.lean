/-
  Line protocol shared by the Rust harness and the Lean driver.
  `<op> <config…> | <inputs…> | <impl outputs…>`; floats as bit patterns (`xHHHHHHHH` f32, `XHHHHHHHHHHHHHHHH` f64),
  integers decimal, byte strings hex.
-/
import PaletteModel.Scalar

namespace Proto

def hexDigit? (c : Char) : Option Nat :=
  if '0' ≤ c ∧ c ≤ '9' then some (c.toNat - '0'.toNat)
  else if 'a' ≤ c ∧ c ≤ 'f' then some (c.toNat - 'a'.toNat + 10)
  else if 'A' ≤ c ∧ c ≤ 'F' then some (c.toNat - 'A'.toNat + 10)
  else none

def hexNat? (s : List Char) : Option Nat :=
  if s.isEmpty then none else
  s.foldl (fun acc c => match acc, hexDigit? c with
    | some a, some d => some (a * 16 + d)
    | _, _ => none) (some 0)

def f32? (tok : String) : Option Float32 :=
  match tok.toList with
  | 'x' :: r => (hexNat? r).map fun n => Float32.ofBits (UInt32.ofNat n)
  | _ => none

def f64? (tok : String) : Option Float :=
  match tok.toList with
  | 'X' :: r => (hexNat? r).map fun n => Float.ofBits (UInt64.ofNat n)
  | _ => none

def hexOfNat (n width : Nat) : String :=
  let ds := (Nat.toDigits 16 n)
  String.ofList (List.replicate (width - ds.length) '0' ++ ds)

def showF32 (x : Float32) : String := "x" ++ hexOfNat x.toBits.toNat 8
def showF64 (x : Float) : String := "X" ++ hexOfNat x.toBits.toNat 16

/-- distance in units in the last place between two doubles (NaN = NaN at distance 0; NaN vs number = huge) -/
def key64 (x : Float) : Int :=
  let b := x.toBits
  if b ≥ 0x8000000000000000 then -((b - 0x8000000000000000).toNat : Int) else (b.toNat : Int)
def key32 (x : Float32) : Int :=
  let b := x.toBits
  if b ≥ 0x80000000 then -((b - 0x80000000).toNat : Int) else (b.toNat : Int)

def ulps64 (a b : Float) : Nat :=
  if a.isNaN && b.isNaN then 0 else if a.isNaN || b.isNaN then 1 <<< 62 else (key64 a - key64 b).natAbs
def ulps32 (a b : Float32) : Nat :=
  if a.isNaN && b.isNaN then 0 else if a.isNaN || b.isNaN then 1 <<< 62 else (key32 a - key32 b).natAbs

/-- `|a - b|` measured in ulps of `scale` (a positive magnitude), for quantities obtained by cancellation -/
def closeAbs64 (a b scale : Float) (ulps : Nat) : Bool :=
  if a.isNaN || b.isNaN then a.isNaN && b.isNaN else
  if a == b then true else
  let d := Float.abs (a - b)
  let s := max (max (Float.abs a) (Float.abs b)) scale
  d ≤ s * Float.ofScientific 22204460492503131 true 32 * ulps.toFloat   -- 2.22e-16
def closeAbs32 (a b scale : Float32) (ulps : Nat) : Bool :=
  if a.isNaN || b.isNaN then a.isNaN && b.isNaN else
  if a == b then true else
  let d := Float32.abs (a - b)
  let s := max (max (Float32.abs a) (Float32.abs b)) scale
  d ≤ s * Float32.ofScientific 11920929 true 14 * ulps.toFloat32      -- 1.19e-7

/-- split a line into its `|`-separated sections of whitespace-separated tokens -/
def sections (line : String) : List (List String) :=
  (line.splitOn "|").map fun sec => (sec.splitOn " ").filter (· ≠ "")

inductive Verdict where
  | agree (tags : List String)
  | disagree (msg : String)
  | bad (msg : String)        -- line not understood: a broken protocol is a broken tie, never silently skipped

end Proto
