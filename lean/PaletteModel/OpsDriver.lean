import PaletteModel.Proto
import PaletteModel.Ops
import PaletteModel.Gen.Ops

/-!
  Protocol lines of C10 (on the wire every op name carries the prefix `c10.`, stripped by `Driver.dispatch`; all comparisons exact: the operators use only `+ - * / ceil max` and comparisons, which the model
  executes in the same order in the same IEEE format; a zero result may differ in sign, because the sign `f32::max` gives a
  zero is unspecified):

  `mix <Type> | n a1..an b1..bn f | r1..rn`
  `lighten|lightenfixed|saturate|saturatefixed <Type> | n c1..cn f (lo hi)* | r1..rn`      limits as reported by the accessors,
                                                                                            in macro-invocation order
  `lightenhwb|lightenhwbfixed <Type> | h w b f minW maxW minB maxB | h' w' b'`
  `shifthue|withhue <Type> | n c1..cn x | r1..rn`
  `add|sub|mul|div <Type> | n a1..an b1..bn | r1..rn`        `adds|subs|muls|divs <Type> | n a1..an c | r1..rn`
  `scheme <name> <Type> | n c1..cn | r..` (all result colours concatenated)      `labcompl|labtetradic <Type> | n c1..cn | r..`
  `coverage <table> | Type* |`                          the types the harness exercised for a macro table = the table's types
-/
namespace OpsDrv
open Proto Ops

structure Fmt (α : Type) where
  parse : String → Option α
  shw : α → String
  same : α → α → Bool

def fmt32 : Fmt Float32 := ⟨f32?, showF32, fun a b => a.toBits == b.toBits || (a == 0 && b == 0) || (a.isNaN && b.isNaN)⟩
def fmt64 : Fmt Float := ⟨f64?, showF64, fun a b => a.toBits == b.toBits || (a == 0 && b == 0) || (a.isNaN && b.isNaN)⟩

def sameList {α} (F : Fmt α) : List α → List α → Bool
  | [], [] => true
  | x :: xs, y :: ys => F.same x y && sameList F xs ys
  | _, _ => false

def lookup {β} (k : String) (t : List (String × β)) : Option β := (t.find? (·.1 == k)).map (·.2)

def fieldsOf (ty : String) : Option (List String × Nat) := lookup ty Gen.Ops.fields

def idxOf (x : String) (xs : List String) : Option Nat :=
  let i := xs.findIdx (· == x); if i < xs.length then some i else none

def sameSet (a b : List String) : Bool := a.all (b.contains ·) && b.all (a.contains ·) && a.length == b.length

def verdict {α} (F : Fmt α) (m out : List α) (tags : List String) : Verdict :=
  if sameList F m out then .agree tags else .disagree s!"model={m.map F.shw}"

/-- build the `Inc` spec of a type from the extracted table, reading the limits the accessors reported on the line and
    cross-checking them with the constants the accessor bodies resolve to -/
def incSpec {α} [Scalar α] (F : Fmt α) (fields : List String) (inc : List (String × String × String × String × String)) (other : List String)
    (lims : List (String × Option K × Option K)) (reported : List α) : Except String (List (Inc α)) := do
  if !sameSet (inc.map (·.1) ++ other) fields then throw s!"increase {inc.map (·.1)} + other {other} is not the field list {fields}"
  if reported.length != 2 * inc.length then throw "wrong number of limits on the line"
  let mut spec : List (Inc α) := []
  for f in fields do
    match idxOf f (inc.map (·.1)) with
    | none => spec := spec ++ [Inc.other]
    | some i =>
      let lo := reported.getD (2 * i) Ops.zero
      let hi := reported.getD (2 * i + 1) Ops.zero
      match lookup f lims with
      | none => throw s!"no limit constants for {f}"
      | some (klo, khi) =>
        if let some k := klo then if !F.same (Scalar.const k) lo then throw s!"accessor value {F.shw lo} of min({f}) differs from the extracted constant"
        if let some k := khi then if !F.same (Scalar.const k) hi then throw s!"accessor value {F.shw hi} of max({f}) differs from the extracted constant"
        spec := spec ++ [Inc.increase lo hi]
  return spec

def shiftOf {α} [Scalar α] (s : String) : Option α :=
  match s with
  | "half_rotation" => some (Ops.halfRotation)
  | "30.0" => some 30.0 | "60.0" => some 60.0 | "90.0" => some 90.0 | "120.0" => some 120.0 | "150.0" => some 150.0
  | "180.0" => some 180.0 | "210.0" => some 210.0 | "240.0" => some 240.0 | "270.0" => some 270.0 | "300.0" => some 300.0
  | "330.0" => some 330.0
  | _ => none

def hwbFields : List String := ["hue", "whiteness", "blackness"]

def tableTypes (t : String) : Option (List String) :=
  match t with
  | "mix" => some (Gen.Ops.mix ++ Gen.Ops.mixHue.map (·.1))
  | "lighten" => some (Gen.Ops.lighten.map (·.1) ++ Gen.Ops.lightenHwb)
  | "saturate" => some (Gen.Ops.saturate.map (·.1))
  | "hue" => some (Gen.Ops.hueOps.map (·.1))
  | "addsub" => some (Gen.Ops.colorAdd.map (·.1))
  | "muldiv" => some (Gen.Ops.colorMul.map (·.1))
  | "lab" => some (Gen.Ops.labSchemes.map (·.1))
  | "premultiply" => some (Gen.Ops.premultiply.map (·.1))
  | _ => none

def handleCoverage (cfg inp : List String) : Verdict :=
  match cfg with
  | [t] =>
    match tableTypes t with
    | none => .bad s!"unknown table {t}"
    | some tys =>
      let missing := tys.filter (fun x => !inp.contains x)
      let extra := inp.filter (fun x => !tys.contains x)
      -- the hypotheses of `C10.unitConsts_f32` (bit patterns of the f32 constants 0 and 1), checked by execution
      if (Ops.zero : Float32).toBits != 0 || (Ops.one : Float32).toBits != 0x3f800000 then .disagree "f32 constants 0/1 have unexpected bit patterns" else
      if missing.isEmpty && extra.isEmpty then .agree ["coverage:" ++ t]
      else .disagree s!"table {t}: implementing types not exercised by the harness {missing}; exercised but not in the table {extra}"
  | _ => .bad "malformed coverage line"

def handleAt {α} [Scalar α] (F : Fmt α) (op : String) (cfg inp outp : List String) : Verdict :=
  match inp, outp.mapM F.parse with
  | _, none => .bad "unparsable output"
  | [], _ => .bad "no input"
  | nTok :: rest, some out =>
    match nTok.toNat?, rest.mapM F.parse, cfg.getLast? with
    | some n, some v, some ty =>
      match fieldsOf ty with
      | none => .bad s!"type {ty} not in the extracted struct table"
      | some (fields, h) =>
        if fields.length != n then .disagree s!"{ty}: {n} components on the line, {fields.length} fields in the struct" else
        let a := v.take n
        match op with
        | "mix" =>
          let b := (v.drop n).take n
          match v[2 * n]? with
          | none => .bad "mix: short line"
          | some f =>
            let tag := if Ops.zero ≤ f then (if f ≤ Ops.one then "f-in-01" else "f>1") else "f<0"
            if Gen.Ops.mix.contains ty then
              if h != n then .disagree s!"{ty}: impl_mix! on a type with a hue field" else verdict F (mixLin a b f) out ["lin:" ++ tag]
            else match lookup ty Gen.Ops.mixHue with
              | none => .disagree s!"{ty}: no Mix macro in the extracted tables"
              | some others =>
                if h ≥ n then .disagree s!"{ty}: impl_mix_hue! without hue field"
                else if !sameSet (others ++ [fields[h]!]) fields then .disagree s!"{ty}: impl_mix_hue! field list {others} + hue is not {fields}"
                else verdict F (mixHue (roles n h) a b f) out ["hue:" ++ tag]
        | "lighten" | "lightenfixed" | "saturate" | "saturatefixed" =>
          let light := op == "lighten" || op == "lightenfixed"
          let fixed := op == "lightenfixed" || op == "saturatefixed"
          match lookup ty (if light then Gen.Ops.lighten else Gen.Ops.saturate), lookup ty (if light then Gen.Ops.lightenLimits else Gen.Ops.saturateLimits), v[n]? with
          | some (inc, other), some lims, some f =>
            match incSpec F fields inc other lims (v.drop (n + 1)) with
            | .error e => .disagree s!"{ty}: {e}"
            | .ok spec =>
              let m := if fixed then incFixedValue spec a f else incValue spec a f
              verdict F m out [if Ops.zero ≤ f then "f>=0" else "f<0"]
          | _, _, _ => .disagree s!"{ty}: not in the extracted {op} table"
        | "lightenhwb" | "lightenhwbfixed" =>
          if !Gen.Ops.lightenHwb.contains ty then .disagree s!"{ty}: no impl_lighten_hwb!" else
          if fields != hwbFields then .disagree s!"{ty}: fields {fields}" else
          let accOk := ["min_whiteness", "max_whiteness", "min_blackness", "max_blackness"].all fun acc =>
            match Gen.Ops.lightenHwbAccessors.find? (fun e => e.1 == ty && e.2.1 == acc) with
            | some (_, _, body) => body == (if acc.startsWith "min" then "T::zero()" else "T::max_intensity()")
            | none => false
          if !accOk then .disagree s!"{ty}: whiteness/blackness accessor bodies are not zero / max_intensity" else
          match v with
          | [hh, w, b, f, minW, maxW, minB, maxB] =>
            if !(F.same minW Ops.zero && F.same minB Ops.zero && F.same maxW Ops.one && F.same maxB Ops.one) then .disagree "hwb accessor values" else
            let l : HwbLim α := ⟨minW, maxW, minB, maxB⟩
            let (w', b') := if op == "lightenhwb" then hwbLighten l w b f else hwbLightenFixed l w b f
            verdict F [hh, w', b'] out [if Ops.zero ≤ f then "f>=0" else "f<0"]
          | _ => .bad "lightenhwb: wrong arity"
        | "shifthue" | "withhue" =>
          match lookup ty Gen.Ops.hueOps, v[n]? with
          | some _, some x =>
            if h ≥ n then .disagree s!"{ty}: impl_hue_ops! without hue field" else
            verdict F (if op == "shifthue" then shiftHue h a x else withHue h a x) out []
          | _, _ => .disagree s!"{ty}: no impl_hue_ops!"
        | "add" | "sub" | "mul" | "div" | "adds" | "subs" | "muls" | "divs" =>
          let tab := match op with
            | "add" | "adds" => Gen.Ops.colorAdd | "sub" | "subs" => Gen.Ops.colorSub
            | "mul" | "muls" => Gen.Ops.colorMul | _ => Gen.Ops.colorDiv
          match lookup ty tab with
          | none => .disagree s!"{ty}: no impl_color_{op}!"
          | some elems =>
            if !sameSet elems fields then .disagree s!"{ty}: element list {elems} is not {fields}" else
            let b := (v.drop n).take n
            match op, v[n]? with
            | "add", _ => verdict F (addC a b) out [] | "sub", _ => verdict F (subC a b) out []
            | "mul", _ => verdict F (mulC a b) out [] | "div", _ => verdict F (divC a b) out []
            | "adds", some c => verdict F (addS a c) out [] | "subs", some c => verdict F (subS a c) out []
            | "muls", some c => verdict F (mulS a c) out [] | "divs", some c => verdict F (divS a c) out []
            | _, _ => .bad "arith: short line"
        | "scheme" =>
          match cfg, lookup ty Gen.Ops.hueOps with
          | [name, _], some _ =>
            if h ≥ n then .disagree s!"{ty}: no hue field" else
            match (lookup name Gen.Ops.shifts).bind (fun l => l.mapM (shiftOf (α := α))) with
            | none => .bad s!"scheme {name}: shifts not recognised"
            | some sh => verdict F (sh.flatMap fun s => shiftHue h a s) out [name]
          | _, _ => .disagree s!"{ty}: scheme on a type without impl_hue_ops!"
        | "labcompl" | "labtetradic" =>
          match lookup ty Gen.Ops.labSchemes with
          | none => .disagree s!"{ty}: no impl_lab_color_schemes!"
          | some (na, nb, others) =>
            match idxOf na fields, idxOf nb fields with
            | some ia, some ib =>
              if !sameSet ([na, nb] ++ others.filter (fields.contains ·)) fields then .disagree s!"{ty}: lab scheme fields" else
              if op == "labcompl" then verdict F (labComplementary ia ib a) out []
              else let (x, y, z) := labTetradic ia ib a; verdict F (x ++ y ++ z) out []
            | _, _ => .disagree s!"{ty}: a/b fields not found"
        | _ => .bad s!"unknown op {op}"
    | _, _, _ => .bad "unparsable input"

def handle (op : String) (cfg inp outp : List String) : Verdict :=
  if op == "coverage" then handleCoverage cfg inp
  else if (inp ++ outp).any (fun t => t.startsWith "x") then handleAt fmt32 op cfg inp outp
  else handleAt fmt64 op cfg inp outp

end OpsDrv
