/-
  C17 — prelude of the mask-generic function bodies (`Gen/BodiesV.lean`, `SimdOps.lean`).

  `Simd.lean` declares the mask-generic component interface `VScalar α μ` (arithmetic, `min`/`max`, the `num.rs` functions,
  comparisons that return a mask, `select`) with its two readings: `ofScalar` (mask = `bool`, `select` = `if`) and `lanes`
  (every operation lane by lane).  The generic palette code that also compiles for `wide::{f32x4, f32x8, f64x2, f64x4}` uses a
  few more trait methods; they are added here *beside* `VScalar` (which is left as it is):

  * `VFused α` — `MulAdd::mul_add`, `MulSub::mul_sub`.  For `f32`/`f64`, `mul_add` is the fused `f32::mul_add` and `mul_sub` is
    `(self * m) - s` (num.rs); for the wide types both are `wide`'s `mul_add`/`mul_sub`: `(self * m) ± a` without the `fma`
    target feature, fused with it.  They are operations of the representation, not formulas.
  * `Angle α` (Color/Angle.lean: π, `RealAngle::{radians_to_degrees, degrees_to_radians}`, `Hypot::hypot`) gets its lane-wise
    instance.  For the wide types `to_degrees`/`to_radians` are `wide`'s (one multiplication by a constant computed in the lane
    type) and `hypot` is palette's own `(self * self + other * other).sqrt()` (num/wide.rs) — see `wideHypotAngle`.
  * the handful of definitions that `PaletteModel/BodyPrim.lean` gives over `Scalar`, over `VScalar`: `recip` (`1 / x`; num/wide.rs:
    `$ty::ONE / self` for all four types after the repair), `powi(2)`, `powi(3)`, the component-wise colour operators.

  No Mathlib import (model file).
-/
import PaletteModel.Simd
import PaletteModel.Color.Angle

namespace Simd

/-- `MulAdd::mul_add(self, m, a)` and `MulSub::mul_sub(self, m, s)` of the component type -/
class VFused (α : Type) where
  mulAdd : α → α → α → α
  mulSub : α → α → α → α

/-- `f32`/`f64` (any `Scalar`): `mul_add` = the type's `Scalar.mulAdd` (fused for floats), `mul_sub` = `(self * m) - s` -/
instance VFused.ofScalar {α : Type} [Scalar α] : VFused α := ⟨Scalar.mulAdd, Scalar.mulSub⟩

/-- SIMD: lane by lane -/
instance VFused.lanes {n : Nat} {α : Type} [VFused α] : VFused (Lanes n α) where
  mulAdd x m a := fun i => VFused.mulAdd (x i) (m i) (a i)
  mulSub x m s := fun i => VFused.mulSub (x i) (m i) (s i)

/-- `angle/wide.rs` + `num/wide.rs`: `T::from_f64(PI)` = `splat`, `to_degrees`/`to_radians`/`hypot` lane by lane -/
instance angleLanes {n : Nat} {α : Type} [Angle α] : Angle (Lanes n α) where
  pi := fun _ => Angle.pi
  radToDeg a := fun i => Angle.radToDeg (a i)
  degToRad a := fun i => Angle.degToRad (a i)
  hypot a b := fun i => Angle.hypot (a i) (b i)

section generic
variable {α μ : Type} [VScalar α μ]

/-- `Recip::recip`: `1 / self` (`f32::recip`; num/wide.rs `$ty::ONE / self`) -/
def recipV (x : α) : α := 1.0 / x
/-- `Powi::powi(self, 2)`: `x * x` (`llvm.powi`; num/wide.rs: `pow(self, 2)` = `base * base`) -/
def powi2V (x : α) : α := x * x
/-- `Powi::powi(self, 3)`.  `f32`/`f64`: `llvm.powi`, expanded to `x * (x * x)`; wide: `pow(self, 3)` (num.rs) computes
    `acc * base` with `acc = x`, `base = x * x`.  Both are the product of `x` and `x * x`; written `x * x * x` as in
    `Prim.powi3`/`Cie.cube` (IEEE multiplication is commutative). -/
def powi3V (x : α) : α := x * x * x

/-! `impl_color_add! / _sub! / _mul! / _div!` (macros/arithmetics.rs), as `Prim.v3*` -/
def v3Add (a b : V3 α) : V3 α := ⟨a.c0 + b.c0, a.c1 + b.c1, a.c2 + b.c2⟩
def v3Sub (a b : V3 α) : V3 α := ⟨a.c0 - b.c0, a.c1 - b.c1, a.c2 - b.c2⟩
def v3Mul (a b : V3 α) : V3 α := ⟨a.c0 * b.c0, a.c1 * b.c1, a.c2 * b.c2⟩
def v3Div (a b : V3 α) : V3 α := ⟨a.c0 / b.c0, a.c1 / b.c1, a.c2 / b.c2⟩
def v3AddS (a : V3 α) (s : α) : V3 α := ⟨a.c0 + s, a.c1 + s, a.c2 + s⟩
def v3SubS (a : V3 α) (s : α) : V3 α := ⟨a.c0 - s, a.c1 - s, a.c2 - s⟩
def v3MulS (a : V3 α) (s : α) : V3 α := ⟨a.c0 * s, a.c1 * s, a.c2 * s⟩
def v3DivS (a : V3 α) (s : α) : V3 α := ⟨a.c0 / s, a.c1 / s, a.c2 / s⟩

/-- `matrix_map(m, T::from_f64)` / `matrix_map(m, T::from_scalar)` on nine constants, as `M3.ofK` -/
def m3OfK : List K → M3 α
  | [a, b, c, d, e, f, g, h, i] => ⟨VScalar.const a, VScalar.const b, VScalar.const c, VScalar.const d, VScalar.const e, VScalar.const f, VScalar.const g, VScalar.const h, VScalar.const i⟩
  | _ => ⟨0.0, 0.0, 0.0, 0.0, 0.0, 0.0, 0.0, 0.0, 0.0⟩

/-- `Wp::get_xyz()` on three constants, as `Color.v3OfK` -/
def v3OfK : List K → V3 α
  | [a, b, c] => ⟨VScalar.const a, VScalar.const b, VScalar.const c⟩
  | _ => ⟨0.0, 0.0, 0.0⟩

/-- the `i`-th `T::from_f64(..)` of a Rust function, as `Ok.kAt` -/
def kAtV (l : List K) (i : Nat) : α := VScalar.const (l.getD i (0.0 : K))

end generic

/-! ### lane projections of the composite values -/

/-- lane `i` of a SIMD matrix (`[V; 9]`) -/
def m3Lane {n : Nat} {α : Type} (m : M3 (Lanes n α)) (i : Fin n) : M3 α :=
  ⟨m.m0 i, m.m1 i, m.m2 i, m.m3 i, m.m4 i, m.m5 i, m.m6 i, m.m7 i, m.m8 i⟩

/-- `matrix_map(m, T::from_scalar)`: every entry `splat` -/
def m3Splat {n : Nat} {α : Type} (m : M3 α) : M3 (Lanes n α) :=
  ⟨fun _ => m.m0, fun _ => m.m1, fun _ => m.m2, fun _ => m.m3, fun _ => m.m4, fun _ => m.m5, fun _ => m.m6, fun _ => m.m7, fun _ => m.m8⟩

/-- lane `i` of a list of SIMD components (the cast array of a SIMD colour) -/
def laneL {n : Nat} {α : Type} (l : List (Lanes n α)) (i : Fin n) : List α := l.map (· i)

/-! ### what `wide` computes in one lane, where it is *known* to differ from the scalar type's operation -/

/-- `Hypot for $ty` (num/wide.rs): `(self * self + other * other).sqrt()`, not the scalar `f32::hypot` -/
@[reducible] def wideHypotAngle {α : Type} [Scalar α] (base : Angle α) : Angle α :=
  { base with hypot := fun a b => Scalar.sqrt (a * a + b * b) }

/-- `impl Neg for f32x4` (wide 0.7, lib.rs): `Self::default() - self`, i.e. `0 − x`.  It differs from IEEE negation exactly in
    the sign of a zero result (`−(+0) = −0`, `0 − (+0) = +0`). -/
def wideNeg {α : Type} [Scalar α] (x : α) : α := 0.0 - x

end Simd
