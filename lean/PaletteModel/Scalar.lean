/-
  Law-free scalar interface.  palette is generic over its component type
  (`T: Real + Arithmetics + ...`); the model copies that design.  Every modelled
  function is written once against this class and then read at `Float` /
  `Float32` (executed in the correspondence check) and at `ℝ` (reasoned about
  in `PaletteProofs`).  Only scientific literals are used in model code so that
  `OfScientific` is the only numeral instance involved.

  No Mathlib import here: the driver must link as a `lean_exe`.
-/

/-- Constant expressions.  palette writes constants as `T::from_f64(<f64 const expr>)`: the expression is
    evaluated in `f64` and only then converted to `T`.  `K` keeps the expression so that `Float32` can do exactly
    that (no second-guessing of thresholds by an ulp), while `ℝ` reads it as the exact rational. -/
inductive K where
  | lit (m : Nat) (s : Bool) (e : Nat)
  | add (a b : K) | sub (a b : K) | mul (a b : K) | div (a b : K) | neg (a : K)

instance : OfScientific K := ⟨K.lit⟩
instance : Add K := ⟨K.add⟩
instance : Sub K := ⟨K.sub⟩
instance : Mul K := ⟨K.mul⟩
instance : Div K := ⟨K.div⟩
instance : Neg K := ⟨K.neg⟩

/-- generic reading of a constant expression -/
def K.eval {α : Type} [Add α] [Sub α] [Mul α] [Div α] [Neg α] [OfScientific α] : K → α
  | .lit m s e => OfScientific.ofScientific m s e
  | .add a b => a.eval + b.eval
  | .sub a b => a.eval - b.eval
  | .mul a b => a.eval * b.eval
  | .div a b => a.eval / b.eval
  | .neg a => - a.eval

class Scalar (α : Type) extends Add α, Sub α, Mul α, Div α, Neg α, LT α, LE α, OfScientific α where
  /-- `T::from_f64(k)` -/
  const : K → α
  abs : α → α
  sqrt : α → α
  cbrt : α → α
  exp : α → α
  ln : α → α
  floor : α → α
  ceil : α → α
  round : α → α
  sin : α → α
  cos : α → α
  powf : α → α → α
  atan2 : α → α → α
  min : α → α → α
  max : α → α → α
  /-- `IsValidDivisor` (f32/f64: `is_normal`) -/
  isValidDivisor : α → Bool
  decLt : ∀ a b : α, Decidable (a < b)
  decLe : ∀ a b : α, Decidable (a ≤ b)

namespace Scalar
instance {α} [Scalar α] (a b : α) : Decidable (a < b) := Scalar.decLt a b
instance {α} [Scalar α] (a b : α) : Decidable (a ≤ b) := Scalar.decLe a b

/-- `PartialEq::eq` on components.  Stated through the order so that it is IEEE `==` on floats
    (false on NaN, `-0 == +0`) and equality in any partial order. -/
def eqv {α} [Scalar α] (a b : α) : Prop := a ≤ b ∧ b ≤ a
instance {α} [Scalar α] (a b : α) : Decidable (eqv a b) := by unfold eqv; exact inferInstance

/-- `palette::clamp(v, lo, hi)` = `v.min(hi).max(lo)` (`num.rs`, `Clamp for f32/f64`: `self.clamp(min,max)`;
    the crate-level helper `clamp` is `value.clamp(min, max)`).  Modelled with the same comparison order as
    `f32::clamp`: `if x < min {min} else if x > max {max} else {x}`. -/
def clamp {α} [Scalar α] (v lo hi : α) : α :=
  if v < lo then lo else if hi < v then hi else v

/-- `MulAdd::mul_add(self, m, a)` = `self * m + a`; fused for f32/f64 with `std` (one rounding instead of two):
    the correspondence tolerance covers the difference, the exact reading is the same. -/
def mulAdd {α} [Scalar α] (x m a : α) : α := x * m + a
/-- `MulSub::mul_sub(self, m, s)` = `self * m - s` -/
def mulSub {α} [Scalar α] (x m s : α) : α := x * m - s

def clampMin {α} [Scalar α] (v lo : α) : α := Scalar.max v lo   -- `f32::max`
def clampMax {α} [Scalar α] (v hi : α) : α := Scalar.min v hi   -- `f32::min`
end Scalar

/-! ### IEEE double -/

def Float.isNormalB (x : Float) : Bool :=
  -- `f64::is_normal`: not zero, subnormal, infinite or NaN
  let b := x.toBits
  let e := (b >>> 52) &&& 0x7ff
  e != 0 && e != 0x7ff

instance : Scalar Float where
  const := K.eval
  abs := Float.abs
  sqrt := Float.sqrt
  cbrt := Float.cbrt
  exp := Float.exp
  ln := Float.log
  floor := Float.floor
  ceil := Float.ceil
  round := Float.round
  sin := Float.sin
  cos := Float.cos
  powf := Float.pow
  atan2 := Float.atan2
  -- Rust `f64::min/max`: if one operand is NaN the other is returned (C fmin/fmax)
  min := fun a b => if a.isNaN then b else if b.isNaN then a else if a < b then a else b
  max := fun a b => if a.isNaN then b else if b.isNaN then a else if a < b then b else a
  isValidDivisor := Float.isNormalB
  decLt := fun a b => inferInstanceAs (Decidable (a < b))
  decLe := fun a b => inferInstanceAs (Decidable (a ≤ b))

/-! ### IEEE single -/

def Float32.isNormalB (x : Float32) : Bool :=
  let b := x.toBits
  let e := (b >>> 23) &&& 0xff
  e != 0 && e != 0xff

instance : Scalar Float32 where
  -- `T::from_f64(x)` is `x as f32`: literals and constant expressions are evaluated in f64 first
  ofScientific := fun m s e => (Float.ofScientific m s e).toFloat32
  const := fun k => (K.eval (α := Float) k).toFloat32
  abs := Float32.abs
  sqrt := Float32.sqrt
  cbrt := Float32.cbrt
  exp := Float32.exp
  ln := Float32.log
  floor := Float32.floor
  ceil := Float32.ceil
  round := Float32.round
  sin := Float32.sin
  cos := Float32.cos
  powf := Float32.pow
  atan2 := Float32.atan2
  min := fun a b => if a.isNaN then b else if b.isNaN then a else if a < b then a else b
  max := fun a b => if a.isNaN then b else if b.isNaN then a else if a < b then b else a
  isValidDivisor := Float32.isNormalB
  decLt := fun a b => inferInstanceAs (Decidable (a < b))
  decLe := fun a b => inferInstanceAs (Decidable (a ≤ b))
