/-
  Law-free scalar interface.  palette is generic over its component type
  (`T: Real + Arithmetics + ...`); the model copies that design.  Every modelled
  function is written once against this class and then read at `Float` /
  `Float32` (executed in the correspondence check) and at `ℝ` (reasoned about
  in `PaletteProofs`).  Only scientific literals are used in model code so that
  `OfScientific` is the only numeral instance involved.

  No Mathlib import here: the driver must link as a `lean_exe`.
-/
import PaletteModel.Cbrt

/-- Constant expressions.  palette writes constants as `T::from_f64(<f64 const expr>)`: the expression is
    evaluated in `f64` and only then converted to `T`.  `K` keeps the expression so that `Float32` can do exactly
    that (no second-guessing of thresholds by an ulp), while `ℝ` reads it as the exact rational. -/
inductive K where
  | lit (m : Nat) (s : Bool) (e : Nat)
  | add (a b : K) | sub (a b : K) | mul (a b : K) | div (a b : K) | neg (a : K)

instance : OfScientific K := ⟨K.lit⟩
instance : Add K := ⟨K.add⟩
instance : Sub K := ⟨K.sub⟩
instance : Mul K := ⟨K.mul⟩
instance : Div K := ⟨K.div⟩
instance : Neg K := ⟨K.neg⟩

/-- generic reading of a constant expression -/
def K.eval {α : Type} [Add α] [Sub α] [Mul α] [Div α] [Neg α] [OfScientific α] : K → α
  | .lit m s e => OfScientific.ofScientific m s e
  | .add a b => a.eval + b.eval
  | .sub a b => a.eval - b.eval
  | .mul a b => a.eval * b.eval
  | .div a b => a.eval / b.eval
  | .neg a => - a.eval

class Scalar (α : Type) extends Add α, Sub α, Mul α, Div α, Neg α, LT α, LE α, OfScientific α where
  /-- `T::from_f64(k)` -/
  const : K → α
  abs : α → α
  sqrt : α → α
  cbrt : α → α
  exp : α → α
  ln : α → α
  floor : α → α
  ceil : α → α
  round : α → α
  sin : α → α
  cos : α → α
  powf : α → α → α
  atan2 : α → α → α
  min : α → α → α
  max : α → α → α
  /-- `IsValidDivisor` (f32/f64: `is_normal`) -/
  isValidDivisor : α → Bool
  /-- `MulAdd::mul_add(self, m, a)` = `self * m + a`.  For `f32`/`f64` this is `f32::mul_add`, a *fused* multiply-add (one
      rounding): the `Float`/`Float32` instances reproduce that exactly (`SoftFma`), every exact reading is `x * m + a`. -/
  mulAdd : α → α → α → α := fun x m a => x * m + a
  decLt : ∀ a b : α, Decidable (a < b)
  decLe : ∀ a b : α, Decidable (a ≤ b)

namespace Scalar
instance {α} [Scalar α] (a b : α) : Decidable (a < b) := Scalar.decLt a b
instance {α} [Scalar α] (a b : α) : Decidable (a ≤ b) := Scalar.decLe a b

/-- `PartialEq::eq` on components.  Stated through the order so that it is IEEE `==` on floats
    (false on NaN, `-0 == +0`) and equality in any partial order. -/
def eqv {α} [Scalar α] (a b : α) : Prop := a ≤ b ∧ b ≤ a
instance {α} [Scalar α] (a b : α) : Decidable (eqv a b) := by unfold eqv; exact inferInstance

/-- `palette::clamp(v, lo, hi)` = `v.min(hi).max(lo)` (`num.rs`, `Clamp for f32/f64`: `self.clamp(min,max)`;
    the crate-level helper `clamp` is `value.clamp(min, max)`).  Modelled with the same comparison order as
    `f32::clamp`: `if x < min {min} else if x > max {max} else {x}`. -/
def clamp {α} [Scalar α] (v lo hi : α) : α :=
  if v < lo then lo else if hi < v then hi else v

/-- `MulSub::mul_sub(self, m, s)` = `(self * m) - s` (not fused, `num.rs`) -/
def mulSub {α} [Scalar α] (x m s : α) : α := x * m - s

def clampMin {α} [Scalar α] (v lo : α) : α := Scalar.max v lo   -- `f32::max`
def clampMax {α} [Scalar α] (v hi : α) : α := Scalar.min v hi   -- `f32::min`
end Scalar

/-! ### exact fused multiply-add on bit patterns (Lean's `Float` has no `fma`) -/
namespace SoftFma

/-- a finite float as `±m·2^e` -/
structure Dec where
  neg : Bool
  m : Nat
  e : Int

/-- decode an IEEE bit pattern with `mbits` fraction bits and `ebits` exponent bits; `none` for NaN / infinity -/
def decode (bits mbits ebits : Nat) : Option Dec :=
  let neg := (bits >>> (mbits + ebits)) % 2 == 1
  let ef := (bits >>> mbits) % 2 ^ ebits
  let mf := bits % 2 ^ mbits
  let bias : Int := ((2 ^ (ebits - 1) - 1 : Nat) : Int)
  if ef == 2 ^ ebits - 1 then none
  else if ef == 0 then some ⟨neg, mf, 1 - bias - (mbits : Int)⟩
  else some ⟨neg, mf + 2 ^ mbits, (ef : Int) - bias - (mbits : Int)⟩

/-- round `n·2^e` (`n > 0`) to nearest, ties to even, and encode (overflow to infinity, gradual underflow) -/
def encode (neg : Bool) (n : Nat) (e : Int) (mbits ebits : Nat) : Nat :=
  let bias : Int := ((2 ^ (ebits - 1) - 1 : Nat) : Int)
  let emin : Int := 1 - bias
  let lead : Int := e + (Nat.log2 n : Int)                       -- exponent of the leading bit
  let q : Int := if lead < emin then emin - (mbits : Int) else lead - (mbits : Int)   -- exponent of the last kept bit
  let mant : Nat :=
    if q ≤ e then n <<< (e - q).toNat
    else
      let k := (q - e).toNat
      let hi := n >>> k
      let rem := n % 2 ^ k
      let half := 2 ^ (k - 1)
      if rem > half || (rem == half && hi % 2 == 1) then hi + 1 else hi
  let mag : Nat :=
    if lead < emin then mant                                      -- subnormal (or it rounded up to the smallest normal)
    else ((lead + bias).toNat <<< mbits) + (mant - 2 ^ mbits)     -- a carry out of the fraction bumps the exponent field
  let inf : Nat := (2 ^ ebits - 1) <<< mbits
  (if neg then 1 <<< (mbits + ebits) else 0) + (if mag ≥ inf then inf else mag)

/-- exact `x·m + a`, rounded once; `none` when `x` or `m` is not finite or the exact result is zero (the caller then uses
    the unfused expression, which is IEEE-correct in those cases); finite `x·m` plus an infinite/NaN `a` is `a` (the
    unfused product could overflow to the opposite infinity) -/
def fmaBits (x m a mbits ebits : Nat) : Option Nat :=
  match decode x mbits ebits, decode m mbits ebits, decode a mbits ebits with
  | some _, some _, none => some a
  | some dx, some dm, some da =>
    let pm := dx.m * dm.m
    let pe := dx.e + dm.e
    let pneg := dx.neg != dm.neg
    let e := if pe < da.e then pe else da.e
    let p : Int := ((pm <<< (pe - e).toNat : Nat) : Int)
    let t : Int := ((da.m <<< (da.e - e).toNat : Nat) : Int)
    let sum : Int := (if pneg then -p else p) + (if da.neg then -t else t)
    if sum == 0 then none else some (encode (sum < 0) sum.natAbs e mbits ebits)
  | _, _, _ => none

end SoftFma

def Float.fma (x m a : Float) : Float :=
  match SoftFma.fmaBits x.toBits.toNat m.toBits.toNat a.toBits.toNat 52 11 with
  | some b => Float.ofBits (UInt64.ofNat b)
  | none => x * m + a

def Float32.fma (x m a : Float32) : Float32 :=
  match SoftFma.fmaBits x.toBits.toNat m.toBits.toNat a.toBits.toNat 23 8 with
  | some b => Float32.ofBits (UInt32.ofNat b)
  | none => x * m + a

/-! ### IEEE double -/

def Float.isNormalB (x : Float) : Bool :=
  -- `f64::is_normal`: not zero, subnormal, infinite or NaN
  let b := x.toBits
  let e := (b >>> 52) &&& 0x7ff
  e != 0 && e != 0x7ff

instance : Scalar Float where
  const := K.eval
  abs := Float.abs
  sqrt := Float.sqrt
  cbrt := Cbrt.cbrt64       -- Rust's `f64::cbrt` is compiler-builtins' correctly rounded cbrt, not the system libm's (see Cbrt.lean)
  exp := Float.exp
  ln := Float.log
  floor := Float.floor
  ceil := Float.ceil
  round := Float.round
  sin := Float.sin
  cos := Float.cos
  powf := Float.pow
  atan2 := Float.atan2
  -- Rust `f64::min/max`: if one operand is NaN the other is returned (C fmin/fmax)
  min := fun a b => if a.isNaN then b else if b.isNaN then a else if a < b then a else b
  max := fun a b => if a.isNaN then b else if b.isNaN then a else if a < b then b else a
  isValidDivisor := Float.isNormalB
  mulAdd := Float.fma
  decLt := fun a b => inferInstanceAs (Decidable (a < b))
  decLe := fun a b => inferInstanceAs (Decidable (a ≤ b))

/-! ### IEEE single -/

def Float32.isNormalB (x : Float32) : Bool :=
  let b := x.toBits
  let e := (b >>> 23) &&& 0xff
  e != 0 && e != 0xff

instance : Scalar Float32 where
  -- `T::from_f64(x)` is `x as f32`: literals and constant expressions are evaluated in f64 first
  ofScientific := fun m s e => (Float.ofScientific m s e).toFloat32
  const := fun k => (K.eval (α := Float) k).toFloat32
  abs := Float32.abs
  sqrt := Float32.sqrt
  cbrt := Cbrt.cbrt32       -- Rust's `f32::cbrt` = `libm::cbrtf` (FreeBSD), transcribed in Cbrt.lean
  exp := Float32.exp
  ln := Float32.log
  floor := Float32.floor
  ceil := Float32.ceil
  round := Float32.round
  sin := Float32.sin
  cos := Float32.cos
  powf := Float32.pow
  atan2 := Float32.atan2
  min := fun a b => if a.isNaN then b else if b.isNaN then a else if a < b then a else b
  max := fun a b => if a.isNaN then b else if b.isNaN then a else if a < b then b else a
  isValidDivisor := Float32.isNormalB
  mulAdd := Float32.fma
  decLt := fun a b => inferInstanceAs (Decidable (a < b))
  decLe := fun a b => inferInstanceAs (Decidable (a ≤ b))
