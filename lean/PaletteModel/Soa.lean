/-
  C18 — model of the struct-of-arrays colour collections
  (`palette/src/macros/struct_of_arrays.rs`, the `Alpha` wrappers in `alpha/alpha.rs`, the hue collections in `hues.rs`).

  State: `k` columns (`k` = hue? + elements + alpha?) of `List α`, walked by every generated method in the order
  hue, elements (macro list order), alpha (`Gen.Soa.hueFirstAlphaLast`).  `α` is the component type; the driver runs
  the model at `α = Nat` (bit patterns), the theorems hold for every `α`.
  Reference: one `List (Row α k)` — a plain `Vec<Color>`.
  `Alpha<Color<Vec<T>>, Vec<A>>` appears here flattened to `k + 1` columns; `SoaNested.lean` models the nesting itself and
  `PaletteProofs/C18_SoaNested.lean` proves the two equal.

  `Vec`/slice semantics used by both sides (`resolve`: `slice::get(range)` gives `None`, `Vec::drain(range)` panics, on an
  inverted or out-of-range range or an inclusive end of `usize::MAX`) are parameters of the model, not verified (DESIGN §2.9-2).
-/
namespace Soa

abbrev Row (α : Type) (k : Nat) := Vector α k
abbrev Cols (α : Type) (k : Nat) := Vector (List α) k

def usizeMax : Nat := 2^64 - 1

/-- the six range types accepted by `slice::get` / `Vec::drain` -/
inductive Rng where
  | range (a b : Nat)      -- a..b
  | «from» (a : Nat)       -- a..
  | to (b : Nat)           -- ..b
  | full                   -- ..
  | incl (a b : Nat)       -- a..=b
  | toIncl (b : Nat)       -- ..=b
  deriving Repr, DecidableEq

/-- `Range::get`: `if start > end || end > len { None }` -/
def chk (len a b : Nat) : Option (Nat × Nat) := if a ≤ b ∧ b ≤ len then some (a, b) else none

/-- the half-open index window a range denotes on a collection of length `len`, or `none` where `slice::get` returns
    `None` and `Vec::drain` panics -/
def Rng.resolve (len : Nat) : Rng → Option (Nat × Nat)
  | .range a b => chk len a b
  | .from a => chk len a len
  | .to b => chk len 0 b
  | .full => some (0, len)
  | .incl a b => if b = usizeMax then none else chk len a (b + 1)
  | .toIncl b => if b = usizeMax then none else chk len 0 (b + 1)

/-- `if let (Some(a), Some(b), ..) = (a, b, ..) { Some(Color{a, b, ..}) } else { None }` -/
def allSome {β : Type} {k : Nat} (v : Vector (Option β) k) : Option (Vector β k) :=
  if h : ∀ i : Fin k, (v[i.val]).isSome = true then some (Vector.ofFn fun i => (v[i.val]).get (h i)) else none

/-! ## iterators: one list-iterator per column, advanced independently (`Iter::next`/`next_back`) -/

/-- `pre`: items already yielded from the front (with what was written through the `&mut`), `rest`: not yet yielded,
    `post`: yielded from the back.  For `get_mut(range)` the parts outside the window start in `pre`/`post`. -/
structure Zip (α : Type) (k : Nat) where
  pre : Cols α k
  rest : Cols α k
  post : Cols α k

inductive Step (α : Type) (k : Nat) where
  | next (w : Option (Row α k))       -- `next()`, then `.set(w)` on the yielded item if it is `Some` and `w` is given
  | nextBack (w : Option (Row α k))   -- `next_back()`, likewise
  | len                               -- `ExactSizeIterator::len`
  | sizeHint                          -- `Iterator::size_hint`
  | count                             -- `Iterator::count` (consumes the iterator: scripts have it last; here a query)

inductive SObs (α : Type) (k : Nat) where
  | item (o : Option (Row α k))
  | len (n : Nat)
  | hint (lo : Nat) (hi : Option Nat)
  | count (n : Nat)
  deriving DecidableEq

def firstLen {α : Type} {k : Nat} (c : Cols α k) : Nat := if h : 0 < k then (c[0]).length else 0

def Zip.ofCols {α : Type} {k : Nat} (c : Cols α k) : Zip α k := { pre := c.map fun _ => [], rest := c, post := c.map fun _ => [] }

/-- every column iterator is advanced; the colour is `Some` only if every column yielded -/
def Zip.next {α : Type} {k : Nat} (z : Zip α k) (w : Option (Row α k)) : Zip α k × Option (Row α k) :=
  let heads := z.rest.map List.head?
  let item := allSome heads
  let pre' : Cols α k := Vector.ofFn fun j =>
    z.pre[j.val] ++ (match heads[j.val] with
      | none => []
      | some x => [match item, w with | some _, some wr => wr[j.val] | _, _ => x])
  ({ pre := pre', rest := z.rest.map List.tail, post := z.post }, item)

def Zip.nextBack {α : Type} {k : Nat} (z : Zip α k) (w : Option (Row α k)) : Zip α k × Option (Row α k) :=
  let lasts := z.rest.map List.getLast?
  let item := allSome lasts
  let post' : Cols α k := Vector.ofFn fun j =>
    (match lasts[j.val] with
      | none => []
      | some x => [match item, w with | some _, some wr => wr[j.val] | _, _ => x]) ++ z.post[j.val]
  ({ pre := z.pre, rest := z.rest.map List.dropLast, post := post' }, item)

/-- `len()` is the first column's (`hue` / first element; for `Alpha` the colour's) -/
def Zip.len {α : Type} {k : Nat} (z : Zip α k) : Nat := firstLen z.rest

/-- `size_hint()` is the first column's; the column iterators (`slice::Iter`, `slice::IterMut`, `vec::Drain`,
    `vec::IntoIter`, `array::IntoIter`) report `(n, Some(n))` with `n` their remaining length (trusted, DESIGN §2.9-2) -/
def Zip.sizeHint {α : Type} {k : Nat} (z : Zip α k) : Nat × Option Nat := (firstLen z.rest, some (firstLen z.rest))

/-- `count()` is the first column's -/
def Zip.count {α : Type} {k : Nat} (z : Zip α k) : Nat := firstLen z.rest

def Zip.step {α : Type} {k : Nat} (z : Zip α k) : Step α k → Zip α k × SObs α k
  | .next w => let r := z.next w; (r.1, .item r.2)
  | .nextBack w => let r := z.nextBack w; (r.1, .item r.2)
  | .len => (z, .len z.len)
  | .sizeHint => (z, .hint z.sizeHint.1 z.sizeHint.2)
  | .count => (z, .count z.count)

def Zip.run {α : Type} {k : Nat} (z : Zip α k) : List (Step α k) → Zip α k × List (SObs α k)
  | [] => (z, [])
  | s :: t => let r := z.step s; let r' := r.1.run t; (r'.1, r.2 :: r'.2)

/-- what the collection holds when the iterator is dropped -/
def Zip.close {α : Type} {k : Nat} (z : Zip α k) : Cols α k := Vector.ofFn fun j => z.pre[j.val] ++ z.rest[j.val] ++ z.post[j.val]

/-- a read-only script: writes are not available on `Iter<slice::Iter>`, `Iter<vec::Drain>`, `Iter<vec::IntoIter>` -/
def Step.readOnly {α : Type} {k : Nat} : Step α k → Step α k
  | .next _ => .next none
  | .nextBack _ => .nextBack none
  | .len => .len
  | .sizeHint => .sizeHint
  | .count => .count

def runRead {α : Type} {k : Nat} (c : Cols α k) (script : List (Step α k)) : List (SObs α k) :=
  ((Zip.ofCols c).run (script.map Step.readOnly)).2

/-! ## operations -/

inductive Op (α : Type) (k : Nat) where
  | push (r : Row α k)
  | pop
  | extend (rs : List (Row α k))
  | collect (rs : List (Row α k))               -- `*self = rs.into_iter().collect()`
  | withCapacity                                -- `*self = Self::with_capacity(n)`
  | clear
  | drain (r : Rng) (script : List (Step α k))  -- `let mut d = self.drain(r); script; drop(d)`
  | get (i : Nat)
  | getRange (r : Rng) (script : List (Step α k))      -- `self.get(r)` then iterate the slice-form colour
  | getMut (i : Nat) (w : Row α k)                     -- `self.get_mut(i).map(|mut c| { old = c.copied(); c.set(w); old })`
  | getMutRange (r : Rng) (script : List (Step α k))   -- `self.get_mut(r)` then `iter_mut` script on the `&mut [T]` form
  | iter (script : List (Step α k))
  | iterMut (script : List (Step α k))
  | rev                                         -- `self.iter().rev().collect()`: `next_back` until `None`
  | intoIter                                    -- `self.clone().into_iter().collect()`: `next` until `None`
  | len                                         -- `self.iter().len()` and every column's own `len()`
  | forgetDrain (r : Rng) (script : List (Step α k))   -- `let mut d = self.drain(r); script; mem::forget(d)`

inductive Obs (α : Type) (k : Nat) where
  | unit
  | item (o : Option (Row α k))
  | steps (l : List (SObs α k))
  | noSlice                                     -- `get(range)` / `get_mut(range)` returned `None`
  | panic
  | lens (iterLen : Nat) (cols : Vector Nat k)
  deriving DecidableEq

def pushRow {α : Type} {k : Nat} (s : Cols α k) (r : Row α k) : Cols α k := Vector.zipWith (fun c x => c ++ [x]) s r

/-- `for color in iter { self.hue.extend(once(color.hue)); $(self.$element.extend(once(color.$element));)+ }` -/
def extendRows {α : Type} {k : Nat} (s : Cols α k) (rs : List (Row α k)) : Cols α k := rs.foldl pushRow s

def emptyCols (α : Type) (k : Nat) : Cols α k := Vector.replicate k []

/-- `Vec::drain(range)` on one column: `(what stays, what is removed)`, `none` = panic (nothing touched) -/
def drainCol {α : Type} (r : Rng) (c : List α) : Option (List α × List α) :=
  (r.resolve c.length).map fun ab => (c.take ab.1 ++ c.drop ab.2, (c.take ab.2).drop ab.1)

/-- `Vec::drain(range)` on one column when the `Drain` is leaked (`mem::forget`): `Vec::drain` sets the length to the
    start of the range and only `Drain::drop` moves the tail back, so the range **and the tail** are lost
    (std's documented "leak amplification"; nothing is duplicated): `(what stays, what the iterator can yield)` -/
def forgetCol {α : Type} (r : Rng) (c : List α) : Option (List α × List α) :=
  (r.resolve c.length).map fun ab => (c.take ab.1, (c.take ab.2).drop ab.1)

/-- `slice::get(range)` on one column -/
def sliceCol {α : Type} (r : Rng) (c : List α) : Option (List α) :=
  (r.resolve c.length).map fun ab => (c.take ab.2).drop ab.1

/-- `slice::get_mut(range)` on one column, with its surroundings -/
def splitCol {α : Type} (r : Rng) (c : List α) : Option (List α × List α × List α) :=
  (r.resolve c.length).map fun ab => (c.take ab.1, (c.take ab.2).drop ab.1, c.drop ab.2)

/-- the columns are drained in order; if column `j` is the first whose `Vec::drain` panics, the `Drain`s of the columns
    before it are dropped while unwinding (their ranges are removed) and column `j` and the later ones are untouched -/
def drainPanicState {α : Type} {k : Nat} (s : Cols α k) (res : Vector (Option (List α × List α)) k) : Cols α k :=
  Vector.ofFn fun j =>
    if (List.range (j.val + 1)).all (fun i => (res.toList[i]?.join).isSome) then
      match res[j.val] with | some p => p.1 | none => s[j.val]
    else s[j.val]

def fullBack {α : Type} {k : Nat} (c : Cols α k) : List (Step α k) := List.replicate (firstLen c + 1) (.nextBack none)
def fullFwd {α : Type} {k : Nat} (c : Cols α k) : List (Step α k) := List.replicate (firstLen c + 1) (.next none)

def step {α : Type} {k : Nat} (s : Cols α k) : Op α k → Cols α k × Obs α k
  | .push r => (pushRow s r, .unit)
  | .pop => (s.map List.dropLast, .item (allSome (s.map List.getLast?)))
  | .extend rs => (extendRows s rs, .unit)
  | .collect rs => (extendRows (emptyCols α k) rs, .unit)
  | .withCapacity => (emptyCols α k, .unit)
  | .clear => (s.map fun _ => [], .unit)
  | .drain r script =>
    let res := s.map (drainCol r)
    match allSome res with
    | some v => (v.map (·.1), .steps (runRead (v.map (·.2)) script))
    | none => (drainPanicState s res, .panic)
  | .get i => (s, .item (allSome (s.map (·[i]?))))
  | .getRange r script =>
    match allSome (s.map (sliceCol r)) with
    | some sub => (s, .steps (runRead sub script))
    | none => (s, .noSlice)
  | .getMut i w =>
    match allSome (s.map (·[i]?)) with
    | some old => (Vector.zipWith (fun c x => c.set i x) s w, .item (some old))
    | none => (s, .item none)
  | .getMutRange r script =>
    match allSome (s.map (splitCol r)) with
    | some v =>
      let res := (Zip.mk (v.map (·.1)) (v.map (·.2.1)) (v.map (·.2.2))).run script
      (res.1.close, .steps res.2)
    | none => (s, .noSlice)
  | .iter script => (s, .steps (runRead s script))
  | .iterMut script => let res := (Zip.ofCols s).run script; (res.1.close, .steps res.2)
  | .rev => (s, .steps (runRead s (fullBack s)))
  | .intoIter => (s, .steps (runRead s (fullFwd s)))
  | .len => (s, .lens (firstLen s) (s.map List.length))
  | .forgetDrain r script =>
    -- a panic happens inside `self.drain(r)`, before the `forget`: the `Drain`s created so far are dropped as in `.drain`
    match allSome (s.map (forgetCol r)) with
    | some v => (v.map (·.1), .steps (runRead (v.map (·.2)) script))
    | none => (drainPanicState s (s.map (drainCol r)), .panic)

def run {α : Type} {k : Nat} (s : Cols α k) : List (Op α k) → Cols α k × List (Obs α k)
  | [] => (s, [])
  | o :: t => let r := step s o; let r' := run r.1 t; (r'.1, r.2 :: r'.2)

/-! ## reference: a plain vector of colours -/

structure RZip (α : Type) (k : Nat) where
  pre : List (Row α k)
  rest : List (Row α k)
  post : List (Row α k)

def RZip.next {α : Type} {k : Nat} (z : RZip α k) (w : Option (Row α k)) : RZip α k × Option (Row α k) :=
  match z.rest with
  | [] => (z, none)
  | r :: t => ({ pre := z.pre ++ [w.getD r], rest := t, post := z.post }, some r)

def RZip.nextBack {α : Type} {k : Nat} (z : RZip α k) (w : Option (Row α k)) : RZip α k × Option (Row α k) :=
  match z.rest.getLast? with
  | none => (z, none)
  | some r => ({ pre := z.pre, rest := z.rest.dropLast, post := w.getD r :: z.post }, some r)

def RZip.step {α : Type} {k : Nat} (z : RZip α k) : Step α k → RZip α k × SObs α k
  | .next w => let r := z.next w; (r.1, .item r.2)
  | .nextBack w => let r := z.nextBack w; (r.1, .item r.2)
  | .len => (z, .len z.rest.length)
  | .sizeHint => (z, .hint z.rest.length (some z.rest.length))
  | .count => (z, .count z.rest.length)

def RZip.run {α : Type} {k : Nat} (z : RZip α k) : List (Step α k) → RZip α k × List (SObs α k)
  | [] => (z, [])
  | s :: t => let r := z.step s; let r' := r.1.run t; (r'.1, r.2 :: r'.2)

def RZip.close {α : Type} {k : Nat} (z : RZip α k) : List (Row α k) := z.pre ++ z.rest ++ z.post

def runReadRef {α : Type} {k : Nat} (rs : List (Row α k)) (script : List (Step α k)) : List (SObs α k) :=
  ((RZip.mk [] rs []).run (script.map Step.readOnly)).2

def stepRef {α : Type} {k : Nat} (rs : List (Row α k)) : Op α k → List (Row α k) × Obs α k
  | .push r => (rs ++ [r], .unit)
  | .pop => (rs.dropLast, .item rs.getLast?)
  | .extend more => (rs ++ more, .unit)
  | .collect more => (more, .unit)
  | .withCapacity => ([], .unit)
  | .clear => ([], .unit)
  | .drain r script =>
    match r.resolve rs.length with
    | some ab => (rs.take ab.1 ++ rs.drop ab.2, .steps (runReadRef ((rs.take ab.2).drop ab.1) script))
    | none => (rs, .panic)
  | .get i => (rs, .item rs[i]?)
  | .getRange r script =>
    match r.resolve rs.length with
    | some ab => (rs, .steps (runReadRef ((rs.take ab.2).drop ab.1) script))
    | none => (rs, .noSlice)
  | .getMut i w =>
    match rs[i]? with
    | some old => (rs.set i w, .item (some old))
    | none => (rs, .item none)
  | .getMutRange r script =>
    match r.resolve rs.length with
    | some ab =>
      let res := (RZip.mk (rs.take ab.1) ((rs.take ab.2).drop ab.1) (rs.drop ab.2)).run script
      (res.1.close, .steps res.2)
    | none => (rs, .noSlice)
  | .iter script => (rs, .steps (runReadRef rs script))
  | .iterMut script => let res := (RZip.mk [] rs []).run script; (res.1.close, .steps res.2)
  | .rev => (rs, .steps (runReadRef rs (List.replicate (rs.length + 1) (.nextBack none))))
  | .intoIter => (rs, .steps (runReadRef rs (List.replicate (rs.length + 1) (.next none))))
  | .len => (rs, .lens rs.length (Vector.replicate k rs.length))
  | .forgetDrain r script =>
    match r.resolve rs.length with
    | some ab => (rs.take ab.1, .steps (runReadRef ((rs.take ab.2).drop ab.1) script))
    | none => (rs, .panic)

def runRef {α : Type} {k : Nat} (rs : List (Row α k)) : List (Op α k) → List (Row α k) × List (Obs α k)
  | [] => (rs, [])
  | o :: t => let r := stepRef rs o; let r' := runRef r.1 t; (r'.1, r.2 :: r'.2)

/-! ## abstraction -/

/-- struct of arrays of a vector of colours: column `j` holds component `j` of every colour -/
def colsOf {α : Type} {k : Nat} (rs : List (Row α k)) : Cols α k := Vector.ofFn fun j => rs.map (·[j.val])

/-- the colours held by equal-length columns (`abs`): colour `i` takes entry `i` of every column;
    defined for any state as "as many colours as the first column has entries, while every column has one" -/
def rowsOf {α : Type} {k : Nat} (s : Cols α k) : List (Row α k) :=
  (List.range (firstLen s)).filterMap fun i => allSome (s.map (·[i]?))

/-- all component collections (hue and alpha included) have the same length -/
def EqLen {α : Type} {k : Nat} (s : Cols α k) : Prop := ∀ (i j : Nat) (hi : i < k) (hj : j < k), (s[i]).length = (s[j]).length

end Soa
