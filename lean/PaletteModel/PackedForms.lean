/-
  Explicit model functions for the parts of C12 that `PaletteModel/Packed.lean` / `PaletteModel/Hex.lean` leave implicit and family `hex2` of the
  source-text tie translates: the blanket `ComponentOrder<C, u8 / u64 / u128> for T` impls (packing through a byte array of 1 / 8 / 16 bytes, for
  any inner order `pack` / `unpack`), and the message table of `Display for FromHexError`.  `PaletteProofs/Tie_Hex2.lean` proves them equal to the
  translated bodies and proves the round-trip ingredient (`Packed.fromBeBytes (Packed.toBeBytes n x) = x % 256 ^ n`) for every width.
  No Mathlib import.
-/
import PaletteModel.Packed
import PaletteModel.BodyPrimHex2

namespace PackedForms

/-- `<T as ComponentOrder<C, u8>>::pack`: the one byte of the inner order's `[u8; 1]` -/
def packU8 {γ : Type} (pack : γ → Hex2Prim.Arr1 Nat) (c : γ) : Nat := (pack c).x
def unpackU8 {γ : Type} (unpack : Hex2Prim.Arr1 Nat → γ) (x : Nat) : γ := unpack ⟨x⟩

/-- `<T as ComponentOrder<C, uN>>::pack` for an `n`-byte integer: big-endian value of the inner order's byte array (as `Packed.packU32`) -/
def packBe {γ : Type} (pack : γ → List Nat) (c : γ) : Nat := Packed.fromBeBytes (pack c)
/-- `unpack`: the inner order's `unpack` of the big-endian bytes -/
def unpackBe {γ : Type} (n : Nat) (unpack : List Nat → γ) (x : Nat) : γ := unpack (Packed.toBeBytes n x)

def packU64 {γ : Type} (pack : γ → List Nat) (c : γ) : Nat := packBe pack c
def unpackU64 {γ : Type} (unpack : List Nat → γ) (x : Nat) : γ := unpackBe 8 unpack x
def packU128 {γ : Type} (pack : γ → List Nat) (c : γ) : Nat := packBe pack c
def unpackU128 {γ : Type} (unpack : List Nat → γ) (x : Nat) : γ := unpackBe 16 unpack x

end PackedForms

namespace HexForms

/-- ASCII text -> bytes -/
def ascii (s : String) : List UInt8 := s.toList.map fun c => c.toNat.toUInt8

/-- `Display for FromHexError`, per variant in declaration order: the text around the one `{}` (the wrapped `ParseIntError` / the message payload),
    as documented in the error messages of the crate -/
def displayTable : List (String × List UInt8 × Nat) :=
  [("ParseIntError", ascii "{}", 1),
   ("HexFormatError", ascii "{}, please use format '#fff', 'fff', '#ffffff', 'ffffff', etc.", 1),
   ("RgbaHexFormatError", ascii "{}, please use format '#ffff', 'ffff', '#ffffffff', 'ffffffff', etc.", 1)]

end HexForms
