/-
  Whole-route interpreter: the conversion `B::from_color_unclamped(a : A)` as the model sees it =
  the composition of the driver's edge functions (`Conv.edge?`, the dispatch the `conv` lines are replayed with)
  along the derive crate's route (`Route.routeOf`, the table the `routecmp` lines are checked against).

  One *configuration* fixes the type parameters that a chain of derived conversions keeps fixed: the white point `Wp` of
  `Xyz/Yxy/Lab/Lch/Luv/Lchuv/Hsluv` and the RGB standard `S` of `Rgb/Hsl/Hsv/Hwb/Luma` (the Ok types carry none).
  `Lms` is not routed here (its `Xyz` side is white-point-generic, "Any" in `Conv.cieEdge?`): `hop` returns `none` for it,
  as the all-pairs harness leaves it out.

  Generic over the component type like the edges; no Mathlib.  Read at ℝ by `PaletteProofs/C01_Whole*.lean`.
-/
import PaletteModel.Route
import PaletteModel.ConvDriver

namespace RouteEval
open Route

/-- the type parameters shared by every colour of a chain -/
structure Cfg where
  /-- white point type name (`Gen.Mat.whitePoints`) -/
  wp : String
  /-- RGB standard name (`Color.standard?`) -/
  std : String

def isRgbFam (n : String) : Bool := n == "Rgb" || n == "Hsl" || n == "Hsv" || n == "Hwb" || n == "Luma"
def isCie (n : String) : Bool :=
  n == "Xyz" || n == "Yxy" || n == "Lab" || n == "Lch" || n == "Luv" || n == "Lchuv" || n == "Hsluv"

/-- the `Name:cfg` token the harness would print for colour number `i` under configuration `c` -/
def tok (c : Cfg) (i : Nat) : String × String :=
  let n := nameOf i
  (n, if isRgbFam n then c.std else if isCie n then c.wp else "")

variable {α : Type} [Scalar α] [Angle α] {β : Type} [Scalar β] [ViaF64 α β]

/-- one hand-written edge, as the driver dispatches it.  A hop `a → a` is the reflexive impl: with the type parameters fixed by the
    configuration it is the identity (`Conv.rgbEdge?` models `Rgb<S> → Rgb<S>` etc. as `if src.name == dst.name then c`; the
    parameterless Ok types have no entry in the dispatch for it). -/
def hop (c : Cfg) (h : Nat × Nat) : Option (V3 α → V3 α) :=
  if h.1 == h.2 then some id else (Conv.edge? (α := α) (tok c h.1) (tok c h.2)).map (·.f)

/-- composition along a list of hops, first hop applied first -/
def runHops (c : Cfg) : List (Nat × Nat) → Option (V3 α → V3 α)
  | [] => some id
  | h :: r =>
    match hop (α := α) c h, runHops c r with
    | some f, some g => some (g ∘ f)
    | _, _ => none

/-- composition along a chain of colours (ends included) -/
def runPath (c : Cfg) (p : List Nat) : Option (V3 α → V3 α) := runHops (α := α) c (hops p)

/-- **the derived conversion `a → b`**: the edges composed along the derive crate's route -/
def convert (c : Cfg) (a b : Nat) : Option (V3 α → V3 α) := (routeOf a b).bind (runPath (α := α) c)

/-- the same, applied -/
def convertAt (c : Cfg) (a b : Nat) (x : V3 α) : Option (V3 α) := (convert (α := α) c a b).map (· x)

/-- `a → b → a` -/
def roundTrip (c : Cfg) (a b : Nat) (x : V3 α) : Option (V3 α) :=
  (convertAt (α := α) c a b x).bind (convertAt (α := α) c b a)

/-- `a → m → b`, each leg routed by the derive crate on its own -/
def via (c : Cfg) (a m b : Nat) (x : V3 α) : Option (V3 α) :=
  (convertAt (α := α) c a m x).bind (convertAt (α := α) c m b)

/-- the configuration of the all-pairs harness (C01): `Srgb`, `D65` -/
def harnessCfg : Cfg := ⟨"D65", "Srgb"⟩

/-- driver side of a `routecmp` line: the chain of colours the implementation took (and the model's route table names) can be run
    by the interpreter, i.e. every hop of it is an edge of the driver's dispatch under the harness configuration -/
def executable (path : List Nat) : Bool := (runPath (α := Float32) harnessCfg path).isSome

end RouteEval
