/-
  The derive crate's routing: `find_nearest_color` (palette_derive/src/convert/util.rs) transcribed with its explicit
  stack, over the graph extracted into `Gen/Graph.lean`; `route a b` = the chain of hand-written edges that
  `B::from_color_unclamped(a)` expands to.
-/
import PaletteModel.Gen.Graph

namespace Route
open Gen.Graph

def nColors : Nat := names.length
def parentOf (c : Nat) : Nat := parent.getD c c
def skipOf (c : Nat) : List Nat := skipsN.getD c []
def isRoot (c : Nat) : Bool := parentOf c == c
/-- colours whose preferred source is `c`, in declaration order ("plan B" pushes) -/
def childrenOf (c : Nat) : List Nat := (List.range nColors).filter fun k => !isRoot k && parentOf k == c

/-- one iteration of the `while let Some((color, distance)) = stack.pop()` loop.
    state: (stack, found, visited) with `visited` an association list name ↦ distance -/
structure St where
  stack : List (Nat × Nat)          -- top of the stack = head
  found : Option (Nat × Nat)
  visited : List (Nat × Nat)

def stepNearest (skip : List Nat) (s : St) : Option St :=
  match s.stack with
  | [] => none
  | (color, distance) :: rest =>
    let s := { s with stack := rest }
    if skip.contains color then
      match s.found with
      | some (_, fd) => if distance < fd then some { s with found := some (color, distance) } else
          -- falls through to the visited check and pushes (no `continue` in this arm)
          some (pushNeighbours color distance s)
      | none => some { s with found := some (color, distance) }
    else some (pushNeighbours color distance s)
where
  pushNeighbours (color distance : Nat) (s : St) : St :=
    match s.visited.find? (·.1 == color) with
    | some (_, prev) => if prev ≤ distance then s else push color distance s
    | none => push color distance s
  push (color distance : Nat) (s : St) : St :=
    let visited := (color, distance) :: s.visited.filter (·.1 != color)
    -- plan B routes first (children), then the preferred route (parent) so that it is popped first
    let planB := (childrenOf color).map fun k => (k, distance + 1)
    let pref := if isRoot color then [] else [(parentOf color, distance + 1)]
    -- `stack.push` appends; the last pushed is popped first: represent push order by reversing onto the head
    { s with visited := visited, stack := (planB ++ pref).reverse ++ s.stack }

def runNearest (skip : List Nat) : Nat → St → St
  | 0, s => s
  | fuel + 1, s => match stepNearest skip s with
    | none => s
    | some s' => runNearest skip fuel s'

/-- `find_nearest_color(color, meta)`; `none` = the compile error "none of the skipped colors can be used" or fuel exhausted
    with a non-empty stack (which the theorems exclude) -/
def findNearest (src : Nat) (skip : List Nat) : Option Nat :=
  let s := runNearest skip (8 * nColors * nColors) ⟨[(src, 0)], none, []⟩
  if s.stack.isEmpty then s.found.map (·.1) else none

/-- the chain of colours `dst::from_color_unclamped(src)` passes through, ends included -/
def route : Nat → Nat → Nat → Option (List Nat)
  | 0, _, _ => none
  | fuel + 1, src, dst =>
    if (skipOf dst).contains src then some [src, dst]          -- hand-written impl (or none at all, see `manualN`)
    else match findNearest src (skipOf dst) with
      | none => none
      | some n => (route fuel src n).map fun p => p ++ [dst]

def routeOf (src dst : Nat) : Option (List Nat) := route (2 * nColors) src dst

def hops : List Nat → List (Nat × Nat)
  | a :: b :: r => (a, b) :: hops (b :: r)
  | _ => []

/-- the unique path between two colours in the preferred_source tree -/
def ancestors : Nat → Nat → List Nat
  | 0, c => [c]
  | fuel + 1, c => if isRoot c then [c] else c :: ancestors fuel (parentOf c)
def treePath (a b : Nat) : List Nat :=
  let pa := ancestors nColors a
  let pb := ancestors nColors b
  -- first common ancestor
  match pa.find? (pb.contains ·) with
  | none => []
  | some lca => pa.takeWhile (· != lca) ++ [lca] ++ (pb.takeWhile (· != lca)).reverse

def nameOf (c : Nat) : String := names.getD c "?"
def indexOf? (n : String) : Option Nat := let i := names.idxOf n; if i < names.length then some i else none

end Route
