/-
  Model of the probe of `phf::Map::get` for `&str` keys (phf 0.11 / phf_shared 0.11 / siphasher 1.0):
  `phf_shared::hash` = SipHash-1-3 with 128-bit output, keys `(0, map.key)`, over the bytes of the string;
  `get_index` = `(d2 + f1 * d1 + f2) mod 2^32 mod entries.len()` with `(d1, d2) = disps[g mod disps.len()]`.
  64-bit words are `Nat`s below 2^64 (`Nat` add/xor/shift are GMP-backed in the kernel, so the hash of every key of
  the generated map can be evaluated by `decide +kernel`).
-/
namespace Phf

def add64 (a b : Nat) : Nat := (a + b) % 18446744073709551616
/-- `u64::rotate_left` -/
def rotl (x k : Nat) : Nat := ((x <<< k) % 18446744073709551616) ||| (x >>> (64 - k))

structure St where
  v0 : Nat
  v1 : Nat
  v2 : Nat
  v3 : Nat

/-- siphasher `compress!` (one SipRound) -/
def round (s : St) : St :=
  let v0 := add64 s.v0 s.v1
  let v1 := rotl s.v1 13
  let v1 := v1 ^^^ v0
  let v0 := rotl v0 32
  let v2 := add64 s.v2 s.v3
  let v3 := rotl s.v3 16
  let v3 := v3 ^^^ v2
  let v0 := add64 v0 v3
  let v3 := rotl v3 21
  let v3 := v3 ^^^ v0
  let v2 := add64 v2 v1
  let v1 := rotl v1 17
  let v1 := v1 ^^^ v2
  let v2 := rotl v2 32
  ⟨v0, v1, v2, v3⟩

/-- little-endian word of up to 8 bytes -/
def leWord : List Nat → Nat
  | [] => 0
  | b :: bs => b + 256 * leWord bs

/-- one message word: `v3 ^= m; c_rounds (1 round); v0 ^= m` -/
def absorb (s : St) (m : Nat) : St :=
  let s := round { s with v3 := s.v3 ^^^ m }
  { s with v0 := s.v0 ^^^ m }

/-- all full 8-byte words; returns the state and the remaining (< 8) bytes -/
def absorbAll : St → List Nat → St × List Nat
  | s, b0 :: b1 :: b2 :: b3 :: b4 :: b5 :: b6 :: b7 :: rest => absorbAll (absorb s (leWord [b0, b1, b2, b3, b4, b5, b6, b7])) rest
  | s, tail => (s, tail)

def xorAll (s : St) : Nat := s.v0 ^^^ s.v1 ^^^ s.v2 ^^^ s.v3

/-- `SipHasher13::new_with_keys(k0, k1)`, `write(msg)`, `finish128()`: `(h1, h2)` -/
def sip13_128 (k0 k1 : Nat) (msg : List Nat) : Nat × Nat :=
  let s0 : St := ⟨k0 ^^^ 0x736f6d6570736575, k1 ^^^ 0x646f72616e646f83, k0 ^^^ 0x6c7967656e657261, k1 ^^^ 0x7465646279746573⟩
  let (s, tail) := absorbAll s0 msg
  let b := ((msg.length % 256) <<< 56) ||| leWord tail
  let s := absorb s b
  let s := round (round (round { s with v2 := s.v2 ^^^ 0xee }))
  let h1 := xorAll s
  let s := round (round (round { s with v1 := s.v1 ^^^ 0xdd }))
  (h1, xorAll s)

/-- `phf_shared::get_index(&hash(key, &map.key), disps, len)` -/
def index (key : Nat) (disps1 disps2 : List Nat) (len : Nat) (msg : List Nat) : Nat :=
  let (lower, upper) := sip13_128 0 key msg
  let g := (lower >>> 32) % 4294967296
  let f1 := lower % 4294967296
  let f2 := upper % 4294967296
  let d := g % disps1.length
  let d1 := disps1.getD d 0
  let d2 := disps2.getD d 0
  ((d2 + f1 * d1 + f2) % 4294967296) % len

/-- `let entry = &self.entries[index]; if entry.0 == key { Some(&entry.1) } else { None }` -/
def probe (keys vals : List (List Nat)) (i : Nat) (msg : List Nat) : Option (List Nat) :=
  match keys[i]?, vals[i]? with
  | some k, some v => if k = msg then some v else none
  | _, _ => none

/-- `Map::get`: empty map → `None`; otherwise probe the one slot the hash names and compare the key -/
def get (key : Nat) (disps1 disps2 : List Nat) (keys vals : List (List Nat)) (msg : List Nat) : Option (List Nat) :=
  if disps1.isEmpty then none else probe keys vals (index key disps1 disps2 keys.length msg) msg

end Phf
