/-
  The derive crate's routing for colour groups in general, read at the six CAM16 groups.

  `PaletteModel/Route.lean` transcribes `find_nearest_color` (palette_derive/src/convert/util.rs) for the XYZ group, whose tables
  are global definitions.  Here the same walk takes the group tables as an argument (`World`), together with the three things the
  XYZ group never exercises:
    * the groups of a target type are *inferred* from its `skip_derives` list (meta/type_item_attributes.rs): for each skipped
      name the first group of `COLOR_GROUPS` that knows the name, kept only if the name's `infer_group` is true (the root: always);
    * a type without `derive(FromColorUnclamped)` (the full `Cam16`) receives no derived conversion at all;
    * a derived `impl FromColorUnclamped<A> for B` is generated only for the colours `A` of B's own groups.
  `xyzWorld` is the XYZ group as a `World`: `C16Chain.generic_walk_agrees_with_route` decides that the walk of this file returns
  the very routes of `Route.routeOf` (the table the `routecmp` lines of C01 are replayed against) on all 324 pairs.

  `camWorld` is built from the numeric tables `tools/extract.py` regenerates into `Gen/Graph.lean` (`camGroups`, `camDerives`,
  `camSkipsN`).  `hop`/`convert` interpret a route inside the CAM16_JMH group (`Cam16Jmh`, `Cam16UcsJmh`, `Cam16UcsJab`) with the edge
  functions of `PaletteModel/Color/Cam16.lean` — the functions the driver replays the `ucs …` lines with, including the lines the
  harness prints for the derive-generated one-step conversions `Cam16Jmh ↔ Cam16UcsJab` (c16_more.rs).  `convertFromFull` is the
  route out of the full colour (`Cam16 → Cam16Jmh` by `From<Cam16>` = `from_full`, then the route of the partial colour).

  Generic over the component type; no Mathlib.  Read at ℝ by `PaletteProofs/C16_Cam16Chain.lean`.
-/
import PaletteModel.Route
import PaletteModel.Color.Cam16

namespace Cam16Route

/-- a `ColorGroup` of color_types.rs -/
structure Group where
  /-- the colours of the group, the root first -/
  members : List Nat
  /-- `preferred_source` of each member (the root points to itself) -/
  pref : List Nat
  /-- `infer_group` of each member (the root: true) -/
  infer : List Bool

/-- everything the derive reads: `COLOR_GROUPS` (without groups that share no name with these), and per colour whether the struct
    derives `FromColorUnclamped` and its `skip_derives` list -/
structure World where
  nColors : Nat
  groups : List Group
  derives : List Bool
  skips : List (List Nat)

def Group.root (g : Group) : Nat := g.members.headD 0
/-- `group.colors`: (name, preferred_source) of the non-root members, in declaration order -/
def Group.colors (g : Group) : List (Nat × Nat) := (g.members.zip g.pref).drop 1
/-- `check_availability(name).is_ok()` -/
def Group.has (g : Group) (c : Nat) : Bool := g.members.contains c
/-- `group.find_type_by_name(name).map_or(true, |ty| ty.infer_group)` (the root is not a `ColorType`, hence `true`) -/
def Group.inferOf (g : Group) (c : Nat) : Bool :=
  match ((g.members.zip g.infer).drop 1).find? (·.1 == c) with
  | some (_, b) => b
  | none => true

def World.skipOf (w : World) (c : Nat) : List Nat := w.skips.getD c []
def World.derivesOf (w : World) (c : Nat) : Bool := w.derives.getD c false

/-- `TypeItemAttributes::color_groups` after parsing `skip_derives(..)`: indices into `w.groups`, without repetition -/
def World.colorGroupsOf (w : World) (dst : Nat) : List Nat :=
  (w.skipOf dst).foldl (fun acc c =>
    match w.groups.findIdx? (·.has c) with
    | some gi => if ((w.groups.getD gi ⟨[], [], []⟩).inferOf c) && !acc.contains gi then acc ++ [gi] else acc
    | none => acc) []

/-- the colours for which `prepare_from_impl` generates an impl: every colour of the target's groups that is not skipped -/
def World.includedFor (w : World) (dst : Nat) : List Nat :=
  ((w.colorGroupsOf dst).flatMap fun gi => (w.groups.getD gi ⟨[], [], []⟩).members).filter fun c => !(w.skipOf dst).contains c

/-- "plan B" pushes of one loop iteration: in every group, the candidates whose preferred source is `color` -/
def planB (gs : List Group) (color : Nat) : List Nat :=
  gs.flatMap fun g => (g.colors.filter (·.2 == color)).map (·.1)
/-- the preferred pushes: in every group where `color` is a (non-root) candidate, its preferred source -/
def preferred (gs : List Group) (color : Nat) : List Nat :=
  gs.flatMap fun g => (g.colors.filter (·.1 == color)).map (·.2)

/-- one iteration of `while let Some((color, distance)) = stack.pop()`; same state and same reading of the two `continue`s as
    `Route.stepNearest` -/
def stepNearest (gs : List Group) (skip : List Nat) (s : Route.St) : Option Route.St :=
  match s.stack with
  | [] => none
  | (color, distance) :: rest =>
    let s := { s with stack := rest }
    if skip.contains color then
      match s.found with
      | some (_, fd) => if distance < fd then some { s with found := some (color, distance) } else
          some (pushNeighbours color distance s)
      | none => some { s with found := some (color, distance) }
    else some (pushNeighbours color distance s)
where
  pushNeighbours (color distance : Nat) (s : Route.St) : Route.St :=
    match s.visited.find? (·.1 == color) with
    | some (_, prev) => if prev ≤ distance then s else push color distance s
    | none => push color distance s
  push (color distance : Nat) (s : Route.St) : Route.St :=
    let visited := (color, distance) :: s.visited.filter (·.1 != color)
    let pushed := ((planB gs color) ++ (preferred gs color)).map fun k => (k, distance + 1)
    { s with visited := visited, stack := pushed.reverse ++ s.stack }

def runNearest (gs : List Group) (skip : List Nat) : Nat → Route.St → Route.St
  | 0, s => s
  | fuel + 1, s => match stepNearest gs skip s with
    | none => s
    | some s' => runNearest gs skip fuel s'

/-- `find_nearest_color(color, meta)` with `meta.color_groups = gs`, `meta.skip_derives = skip` -/
def findNearest (n : Nat) (gs : List Group) (src : Nat) (skip : List Nat) : Option Nat :=
  let s := runNearest gs skip (8 * n * n) ⟨[(src, 0)], none, []⟩
  if s.stack.isEmpty then s.found.map (·.1) else none

/-- the chain of colours `dst::from_color_unclamped(src)` passes through, ends included; `none` = no such impl -/
def route (w : World) : Nat → Nat → Nat → Option (List Nat)
  | 0, _, _ => none
  | fuel + 1, src, dst =>
    if (w.skipOf dst).contains src then some [src, dst]          -- a skipped pair: the hand-written impl, if there is one
    else if !w.derivesOf dst then none
    else if !(w.includedFor dst).contains src then none
    else
      let gs := (w.colorGroupsOf dst).map fun gi => w.groups.getD gi ⟨[], [], []⟩
      match findNearest w.nColors gs src (w.skipOf dst) with
      | none => none
      | some n => (route w fuel src n).map fun p => p ++ [dst]

def routeOf (w : World) (src dst : Nat) : Option (List Nat) := route w (2 * w.nColors) src dst

/-! ### the two worlds -/

/-- the XYZ group of `Gen/Graph.lean` (every colour derives, one group, every `infer_group` true) -/
def xyzWorld : World :=
  { nColors := Route.nColors,
    groups := [⟨List.range Route.nColors, Gen.Graph.parent, (List.range Route.nColors).map fun _ => true⟩],
    derives := (List.range Route.nColors).map fun _ => true,
    skips := Gen.Graph.skipsN }

/-- the six CAM16 groups -/
def camWorld : World :=
  { nColors := Gen.Graph.camNames.length,
    groups := Gen.Graph.camGroups.map fun g => ⟨g.2.1, g.2.2.1, g.2.2.2⟩,
    derives := Gen.Graph.camDerives,
    skips := Gen.Graph.camSkipsN }

def camRoute (src dst : Nat) : Option (List Nat) := routeOf camWorld src dst
def camName (c : Nat) : String := Gen.Graph.camNames.getD c "?"

/-- positions in `Gen.Graph.camNames` (pinned to the names by `C16Chain.names_pinned`) -/
def iJch : Nat := 0
def iFull : Nat := 1
def iJmh : Nat := 2
def iUcsJmh : Nat := 3
def iUcsJab : Nat := 4
def iJsh : Nat := 5
def iQch : Nat := 6
def iQmh : Nat := 7
def iQsh : Nat := 8

/-! ### interpreting a route -/

variable {α : Type} [Scalar α]

/-- the four hand-written edge functions between `Cam16Jmh`, `Cam16UcsJmh`, `Cam16UcsJab` (`ucs_jmh.rs`, `ucs_jab.rs`, `partial.rs:679`).
    A parameter of the interpreter so that the ℝ theorems can read the same interpreter at the family of edge functions with the
    angle constants as parameters (`C16_Cam16Ucs.lean`), of which `modelEdges` is a member by `rfl`. -/
structure Edges (α : Type) where
  jmhToUcs : V3 α → V3 α
  ucsToJmh : V3 α → V3 α
  ucsJmhToJab : V3 α → V3 α
  ucsJabToJmh : V3 α → V3 α

/-- the model's edge functions (what the driver replays the `ucs …` lines with) -/
def modelEdges : Edges α := ⟨Cam16.jmhToUcs, Cam16.ucsToJmh, Cam16.ucsJmhToJab, Cam16.ucsJabToJmh⟩

/-- one hand-written edge between the three-component colours of the CAM16 groups; `a → a` is the reflexive impl (`val`) -/
def hop (e : Edges α) : Nat × Nat → Option (V3 α → V3 α)
  | (2, 3) => some e.jmhToUcs
  | (3, 2) => some e.ucsToJmh
  | (3, 4) => some e.ucsJmhToJab
  | (4, 3) => some e.ucsJabToJmh
  | (a, b) => if a == b && a != 1 then some id else none

/-- composition along a list of hops, first hop applied first -/
def runHops (e : Edges α) : List (Nat × Nat) → Option (V3 α → V3 α)
  | [] => some id
  | h :: r =>
    match hop e h, runHops e r with
    | some f, some g => some (g ∘ f)
    | _, _ => none

def runPath (e : Edges α) (p : List Nat) : Option (V3 α → V3 α) := runHops e (Route.hops p)

/-- **the conversion `a → b` between two three-component colours**: the edges composed along the derive crate's route -/
def convert (e : Edges α) (a b : Nat) : Option (V3 α → V3 α) := (camRoute a b).bind (runPath e)
def convertAt (e : Edges α) (a b : Nat) (x : V3 α) : Option (V3 α) := (convert e a b).map (· x)
/-- `a → b → a` -/
def roundTrip (e : Edges α) (a b : Nat) (x : V3 α) : Option (V3 α) := (convertAt e a b x).bind (convertAt e b a)
/-- `a → m → b`, each leg routed on its own -/
def via (e : Edges α) (a m b : Nat) (x : V3 α) : Option (V3 α) := (convertAt e a m x).bind (convertAt e m b)

/-- which partial type a colour index is -/
def kindOf : Nat → Option Cam16.PKind
  | 0 => some .Jch | 2 => some .Jmh | 5 => some .Jsh | 6 => some .Qch | 7 => some .Qmh | 8 => some .Qsh | _ => none

/-- **the conversion out of the full colour** `Cam16 → b`: the first hop of the route is `From<Cam16>` of a partial type
    (`from_full`), the rest is a route between three-component colours -/
def convertFromFull (e : Edges α) (b : Nat) : Option (Cam16.Full α → V3 α) :=
  match camRoute iFull b with
  | some (1 :: k :: rest) =>
    match kindOf k, runPath e (k :: rest) with
    | some kind, some g => some fun f => g (kind.fromFull f)
    | _, _ => none
  | _ => none

end Cam16Route
