#!/bin/sh
# Build the framework from files on disk only (offline).
set -e
cd "$(dirname "$0")"
python3 tools/extract.py
(cd lean && lake build)
(cd harness && cp -n /repo/Cargo.lock Cargo.lock 2>/dev/null || true; CARGO_NET_OFFLINE=true cargo build --release --offline)
echo setup-done
